"""RT: write a document in one format, lex the text independently, read it
back with the library; log both projections and the abstract syntax."""
from prov.model import ProvDocument

from project import proj_container, proj_ns
from vocab import uri_segs, uri_text

JSON_OPTS = {"plain": {}, "indent": {"indent": 2}, "sort": {"sort_keys": True},
             "ascii": {"ensure_ascii": False},
             "all": {"indent": 1, "sort_keys": True, "ensure_ascii": False},
             "alt": {"indent": 1, "sort_keys": True}}
XML_OPTS = {"plain": {}, "force": {"force_types": True}, "alt": {"force_types": True}}


def proj_doc(d, voc):
    """Self-contained projection of a document: own records and bundles by identifier."""
    out = {"recs": proj_container(d, voc)["recs"], "ns": proj_ns(d), "bundles": []}
    for b in d.bundles:
        ident = b.identifier
        out["bundles"].append({"id": uri_segs(ident.uri) if ident is not None else [],
                               "recs": proj_container(b, voc)["recs"], "ns": proj_ns(b)})
    return out


def run_rt(doc, fmt, opts, voc):
    res = {"exc": "none", "src": proj_doc(doc, voc), "back": {"recs": [], "bundles": [], "ns": {"reg": [], "dflt": []}},
           "ast": {"j": "null"}, "stage": "write"}
    kw = dict((JSON_OPTS if fmt == "json" else XML_OPTS if fmt == "xml" else {"plain": {}})[opts])
    try:
        text = doc.serialize(format=fmt, **kw)
    except Exception as e:
        res["exc"] = "ser:" + type(e).__name__
        return res
    res["stage"] = "lex"
    try:
        if fmt == "json":
            import lex_json
            res["ast"] = lex_json.lex(text, voc)
        elif fmt == "xml":
            import lex_xml
            res["ast"] = lex_xml.lex(text, voc)
        elif fmt == "provn":
            import lex_provn
            res["ast"] = lex_provn.lex(text, voc)
        elif fmt == "rdf":
            import lex_rdf
            res["ast"] = lex_rdf.lex(text, voc)
    except Exception as e:
        res["exc"] = "lex:" + type(e).__name__
        res["lexerr"] = str(e)[:200]
        return res
    if fmt == "provn":
        res["stage"] = "done"
        return res
    res["stage"] = "read"
    try:
        back = ProvDocument.deserialize(content=text, format=fmt)
    except Exception as e:
        res["exc"] = "de:" + type(e).__name__
        return res
    res["back"] = proj_doc(back, voc)
    fr = freshness(text, fmt, back, res["back"], voc)
    if fr is not None:
        res["fresh"] = fr
    res["stage"] = "done"
    return res


def _mutate(d):
    """Every kind of follow-up modification C12 names, on a document just read."""
    d.add_namespace("mut", "http://c.example/mut#")
    if d.get_default_namespace() is None:
        d.set_default_namespace("http://c.example/dflt#")
    for r in list(d.get_records())[:2]:
        r.add_attributes([("mut:touched", 1)])
    d.entity("mut:added")
    for b in list(d.bundles)[:1]:
        b.add_namespace("mutb", "http://c.example/mutb#")
        b.entity("mutb:added")
        for r in list(b.get_records())[:1]:
            r.add_attributes([("mutb:touched", 1)])
    d.bundle("mut:newbundle")


def freshness(text, fmt, back, back_proj, voc):
    """C12 for deserialisation: the same text read again gives another object; modifying the first
    result changes neither the second (compared with its own projection taken before) nor what a
    third read returns.  The RDF reader is not deterministic across reads of one text (blank-node
    order), so for rdf the third read is not compared."""
    out = {"distinct": True, "frame": True, "again": True, "exc": "none"}
    try:
        twin = ProvDocument.deserialize(content=text, format=fmt)
    except Exception:
        if fmt == "rdf":
            return None          # a reader that refuses a text it accepted a moment ago: C07's subject
        out["exc"] = "reread"
        return out
    try:
        out["distinct"] = twin is not back and all(x is not y for x in twin.get_records() for y in back.get_records()) \
            and all(x is not y for x in twin.bundles for y in back.bundles)
        before = proj_doc(twin, voc)
        _mutate(back)
        out["frame"] = proj_doc(twin, voc) == before
        if fmt != "rdf":
            out["again"] = proj_doc(ProvDocument.deserialize(content=text, format=fmt), voc) == before
    except Exception as e:
        out["exc"] = type(e).__name__
    return out
