"""RT: write a document in one format, lex the text independently, read it
back with the library; log both projections and the abstract syntax."""
from prov.model import ProvDocument

from project import proj_container, proj_ns
from vocab import uri_segs

JSON_OPTS = {"plain": {}, "indent": {"indent": 2}, "sort": {"sort_keys": True},
             "ascii": {"ensure_ascii": False},
             "all": {"indent": 1, "sort_keys": True, "ensure_ascii": False},
             "alt": {"indent": 1, "sort_keys": True}}
XML_OPTS = {"plain": {}, "force": {"force_types": True}, "alt": {"force_types": True}}


def proj_doc(d, voc):
    """Self-contained projection of a document: own records and bundles by identifier."""
    out = {"recs": proj_container(d, voc)["recs"], "ns": proj_ns(d), "bundles": []}
    for b in d.bundles:
        ident = b.identifier
        out["bundles"].append({"id": uri_segs(ident.uri) if ident is not None else [],
                               "recs": proj_container(b, voc)["recs"], "ns": proj_ns(b)})
    return out


def run_rt(doc, fmt, opts, voc):
    res = {"exc": "none", "src": proj_doc(doc, voc), "back": {"recs": [], "bundles": [], "ns": {"reg": [], "dflt": []}},
           "ast": {"j": "null"}, "stage": "write"}
    kw = dict((JSON_OPTS if fmt == "json" else XML_OPTS if fmt == "xml" else {"plain": {}})[opts])
    try:
        text = doc.serialize(format=fmt, **kw)
    except Exception as e:
        res["exc"] = "ser:" + type(e).__name__
        return res
    res["stage"] = "lex"
    try:
        if fmt == "json":
            import lex_json
            res["ast"] = lex_json.lex(text, voc)
        elif fmt == "xml":
            import lex_xml
            res["ast"] = lex_xml.lex(text, voc)
        elif fmt == "provn":
            import lex_provn
            res["ast"] = lex_provn.lex(text, voc)
    except Exception as e:
        res["exc"] = "lex:" + type(e).__name__
        res["lexerr"] = str(e)[:200]
        return res
    if fmt == "provn":
        res["stage"] = "done"
        return res
    res["stage"] = "read"
    try:
        back = ProvDocument.deserialize(content=text, format=fmt)
    except Exception as e:
        res["exc"] = "de:" + type(e).__name__
        return res
    res["back"] = proj_doc(back, voc)
    res["stage"] = "done"
    return res
