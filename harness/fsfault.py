"""Crash-point injection for C17: runs one ProvDocument.serialize(destination=
path) with the stdlib entry points through which Python code creates, writes,
moves and removes files patched (not prov internals), records one event per
file-system step with a snapshot of the destination, and optionally makes one
step fail.  (DESIGN section 3, C17.)"""
import builtins
import errno
import io
import os
import shutil
import tempfile

NAME_CLASSES = {
    "plain": "out.dat", "space": "my out.dat", "nonascii": "données-中.dat",
    "hash": "a#b.dat", "query": "q?x.dat", "semi": "p;q.dat", "colon": "c:d.dat",
    "scheme": "https:report.dat",      # a relative name that begins like a URL scheme
    "subdir": "sub/out.dat", "percent": "a%20b.dat", "abs": None,  # abs: absolute path of plain
}


class Injected(OSError):
    pass


class InjectedPermission(Injected, PermissionError):
    """what a refused rename is (EACCES / EPERM)"""


class Recorder(object):
    def __init__(self, root, named, old, new_bytes, fault):
        self.root = root            # private working directory (cwd of the call)
        self.named = named          # absolute path of the named destination
        self.old = old              # previous content (bytes) or None
        self.new = new_bytes        # the complete serialisation (bytes) or None when unknown
        self.fault = fault or {}
        self.events = []
        self.nwrite = 0
        self.fired = False
        self.tmpdir = os.path.join(root, "tmp")
        self.tmpnames = set()       # paths handed out by mkstemp (relative to root)
        self.intended = b""         # everything the serializer handed to the temporary file
        self.equiv = None           # optional content equivalence for formats that are not byte-stable
        self.base = self.listing()

    # ---- snapshots ----
    def listing(self):
        out = {}
        for d, _, files in os.walk(self.root):
            for f in files:
                p = os.path.join(d, f)
                try:
                    with io.open(p, "rb") as fh:
                        out[os.path.relpath(p, self.root)] = fh.read()
                except OSError:
                    out[os.path.relpath(p, self.root)] = None
        return out

    def named_state(self, content):
        if content is None:
            return "absent"
        if self.old is not None and content == self.old:
            return "old"
        if (self.new is not None and content == self.new) or (self.intended and content == self.intended):
            return "new"
        if self.equiv is not None and self.new is not None and self.equiv(content, self.new):
            return "new"          # formats whose text is not byte-stable (RDF): the same graph
        if self.new is None:
            return "unknown"
        return "partial"

    def snap(self):
        now = self.listing()
        rel = os.path.relpath(self.named, self.root)
        def is_tmp(k):
            return k.startswith("tmp" + os.sep) or k in self.tmpnames
        others = sorted(k for k in set(now) | set(self.base)
                        if k != rel and not is_tmp(k) and now.get(k) != self.base.get(k))
        tmp = sorted(k for k in now if is_tmp(k))
        # ndest: temporary files sitting in the destination's own directory tree (not the system one)
        return {"named": self.named_state(now.get(rel)), "others": others, "ntmp": len(tmp),
                "ndest": len([k for k in tmp if not k.startswith("tmp" + os.sep)])}

    def event(self, ev, **kw):
        e = {"ev": ev, "snap": self.snap()}
        e.update(kw)
        self.events.append(e)

    def should_fail(self, at, k=0):
        f = self.fault
        if f and f.get("at") == at and f.get("k", 0) == k and (not self.fired or (at == "move" and f.get("persist"))):
            self.fired = True
            return True
        return False


class WriteProxy(object):
    """File object opened for writing: counts writes, snapshots, injects.

    Models what a buffered binary file does with a failing device: data accepted by write() but not
    yet on disk stays pending and is flushed by close(); a failed close() still closes the file (a
    second close() is a no-op).  Faults: the k-th write (nothing / half / all but one byte reaches
    the disk), optionally persistent (every later write and the flush of close() fail too - a full
    disk stays full); or the final flush of close() (the last write is held back until then)."""

    def __init__(self, rec, real, role):
        self._rec, self._real, self._role = rec, real, role
        self._pending = b""
        self._closed = False

    def _persisting(self):
        r = self._rec
        return r.fired and r.fault.get("persist") and r.fault.get("at") == "write"

    def write(self, data):
        r = self._rec
        r.nwrite += 1
        k = r.nwrite
        if self._role == "tmp":
            r.intended += data if isinstance(data, bytes) else data.encode("utf-8")
        if self._persisting():
            self._pending += data
            r.event("write", k=k, role=self._role, failed=True)
            raise Injected(errno.ENOSPC, "injected write failure (persistent)")
        if self._pending:
            self._real.write(self._pending)
            self._real.flush()
            self._pending = b""
        if r.should_fail("write", k):
            short = r.fault.get("short", "none")
            n = {"none": 0, "half": len(data) // 2, "most": max(len(data) - 1, 0)}[short]
            if n:
                self._real.write(data[:n])
                self._real.flush()
            if n and isinstance(self._real, io.RawIOBase):
                # an UNBUFFERED file reports a short write by its return value, it does not raise
                r.event("write", k=k, role=self._role, failed=True)
                return n
            self._pending = data[n:]
            r.event("write", k=k, role=self._role, failed=True)
            raise Injected(errno.ENOSPC, "injected write failure")
        if r.fault.get("at") == "close" and self._role == "tmp":
            self._pending = data          # held back: reaches the disk at the next write or at close()
            r.event("write", k=k, role=self._role, failed=False)
            return len(data)
        res = self._real.write(data)
        self._real.flush()
        r.event("write", k=k, role=self._role, failed=False)
        return res

    def flush(self):
        pass                               # only close() is a synchronisation point of the protocol

    def close(self):
        if self._closed:
            return
        self._closed = True
        r = self._rec
        fail = False
        if self._pending:
            if self._persisting():
                fail = True
            elif self._role == "tmp" and r.should_fail("close"):
                short = r.fault.get("short", "none")
                n = {"none": 0, "half": len(self._pending) // 2, "most": max(len(self._pending) - 1, 0)}[short]
                if n:
                    self._real.write(self._pending[:n])
                fail = True
            else:
                self._real.write(self._pending)
            self._pending = b""
        was = self._real.closed
        self._real.close()
        if not was:
            r.event("close", role=self._role, failed=fail)
        if fail:
            raise Injected(errno.ENOSPC, "injected failure of the final flush")

    @property
    def closed(self):
        return self._closed

    def __enter__(self):
        return self

    def __exit__(self, *a):
        self.close()

    def __getattr__(self, name):
        return getattr(self._real, name)


def run_save(doc, fmt, name_class, existing, cross_fs, fault, args=None):
    """One serialize(destination=path) under observation.  Returns the record
    for the trace step."""
    args = args or {}
    root = tempfile.mkdtemp(prefix="c17-")
    os.mkdir(os.path.join(root, "tmp"))
    os.mkdir(os.path.join(root, "sub"))
    fname = NAME_CLASSES[name_class] or NAME_CLASSES["plain"]
    named = os.path.join(root, fname)
    dest = named if name_class == "abs" else fname
    expected = doc.serialize(format=fmt, **args)
    if fmt == "xml":
        b = io.BytesIO()
        doc.serialize(b, format=fmt, **args)
        new_bytes = b.getvalue()
    else:
        new_bytes = expected.encode("utf-8")
    old = None
    if existing:
        old = b"previous content of the file\n" * 3
        if (len(name_class) + len(fmt) + (fault or {}).get("k", 0)) % 2 and new_bytes.swapcase() != new_bytes:
            # ... or an earlier version of the same document: exactly as long, other bytes
            old = new_bytes.swapcase()
        with io.open(named, "wb") as fh:
            fh.write(old)
    rec = Recorder(root, named, old, new_bytes, fault)
    if fmt == "rdf":
        def _same_graph(a, b):
            from rdflib import ConjunctiveGraph
            from rdflib.compare import isomorphic
            try:
                g1, g2 = ConjunctiveGraph(), ConjunctiveGraph()
                g1.parse(data=a.decode("utf-8"), format="trig")
                g2.parse(data=b.decode("utf-8"), format="trig")
                return isomorphic(g1, g2)
            except Exception:
                return False
        rec.equiv = _same_graph
    real = dict(mkstemp=tempfile.mkstemp, fdopen=os.fdopen, move=shutil.move, open=builtins.open,
                ioopen=io.open, rename=os.rename, replace=os.replace, copyfile=shutil.copyfile,
                ntf=tempfile.NamedTemporaryFile, tempdir=tempfile.tempdir, unlink=os.unlink,
                remove=os.remove)
    cwd = os.getcwd()

    def is_write_mode(mode):
        return any(c in mode for c in "wax+")

    def p_mkstemp(*a, **kw):
        fd, name = real["mkstemp"](*a, **kw)
        rec.tmp_samedir = os.path.dirname(os.path.abspath(name)) == os.path.dirname(named)
        rec.tmpnames.add(os.path.relpath(os.path.abspath(name), root))
        rec.event("mkstemp", samedir=rec.tmp_samedir)
        return fd, name

    def p_fdopen(fd, mode="r", *a, **kw):
        f = real["fdopen"](fd, mode, *a, **kw)
        return WriteProxy(rec, f, "tmp") if is_write_mode(mode) else f

    def p_open(file, mode="r", *a, **kw):
        f = real["open"](file, mode, *a, **kw)
        if is_write_mode(mode) and isinstance(file, (str, bytes)) and \
                os.path.abspath(file).startswith(root):
            if os.path.abspath(file) == named:
                role = "dest"
            elif os.path.relpath(os.path.abspath(file), root) not in rec.base:
                # a NEW file that is not the destination: a scratch file of the protocol, whatever
                # it is called and however it was created (mkstemp or a plain open)
                role = "tmp"
                rec.tmp_samedir = os.path.dirname(os.path.abspath(file)) == os.path.dirname(named)
                rec.tmpnames.add(os.path.relpath(os.path.abspath(file), root))
                rec.event("mkstemp", samedir=rec.tmp_samedir)
                return WriteProxy(rec, f, role)
            else:
                role = "file"
            rec.event("open", role=role)
            return WriteProxy(rec, f, role)
        return f

    def p_rename(src, dst, *a, **kw):
        # the default temporary directory is on another file system iff cross_fs
        if cross_fs and not getattr(rec, "tmp_samedir", False):
            raise OSError(errno.EXDEV, "injected: cross-device link")
        if rec.should_fail("move"):
            rec.event("move", failed=True)
            raise InjectedPermission(errno.EACCES, "injected move failure")
        r = real["rename"](src, dst, *a, **kw)
        rec.event("move", failed=False)
        return r

    def p_replace(src, dst, *a, **kw):
        if cross_fs and not getattr(rec, "tmp_samedir", False):
            raise OSError(errno.EXDEV, "injected: cross-device link")
        if rec.should_fail("move"):
            rec.event("move", failed=True)
            raise InjectedPermission(errno.EACCES, "injected move failure")
        r = real["replace"](src, dst, *a, **kw)
        rec.event("move", failed=False)
        return r

    def p_copyfile(src, dst, *a, **kw):
        # the cross-device fallback of shutil.move: copy chunk by chunk, observed
        if rec.fault.get("at") == "move" and rec.fired:
            # the injected failure of the move: shutil.move treats a failing rename as
            # "other device" and falls back to copying, so the fallback fails as well
            raise InjectedPermission(errno.EACCES, "injected move failure")
        rec.event("copy_begin")
        with real["open"](src, "rb") as fsrc:
            data = fsrc.read()
        with p_open(dst, "wb") as fdst:
            n = max(1, len(data) // 3)
            for i in range(0, len(data), n):
                fdst.write(data[i:i + n])
        return dst

    def p_unlink(path, *a, **kw):
        r = real["unlink"](path, *a, **kw)
        if os.path.abspath(path).startswith(root):
            rec.event("unlink")
        return r

    exc = "none"
    try:
        os.chdir(root)
        tempfile.tempdir = rec.tmpdir
        tempfile.mkstemp = p_mkstemp
        os.fdopen = p_fdopen
        builtins.open = p_open
        io.open = p_open
        os.rename = p_rename
        os.replace = p_replace
        shutil.copyfile = p_copyfile
        os.unlink = p_unlink
        os.remove = p_unlink
        try:
            doc.serialize(dest, format=fmt, **args)
        except Exception as e:  # judged by the clauses
            exc = "other:" + type(e).__name__ if not isinstance(e, Injected) else "injected"
    finally:
        tempfile.mkstemp = real["mkstemp"]
        os.fdopen = real["fdopen"]
        builtins.open = real["open"]
        io.open = real["ioopen"]
        os.rename = real["rename"]
        os.replace = real["replace"]
        shutil.copyfile = real["copyfile"]
        os.unlink = real["unlink"]
        os.remove = real["remove"]
        tempfile.tempdir = real["tempdir"]
        os.chdir(cwd)
    final = rec.snap()
    shutil.rmtree(root, ignore_errors=True)
    return {"exc": exc, "events": rec.events, "final": final, "fired": rec.fired,
            "nwrite": rec.nwrite}
