"""C02 — PROV-XML round trip preserves every XML-expressible document exactly,
for force_types in {False, True}."""
from props import _ser

CLAUSES = ["C02_noexc", "C02_rt"]


def run(tier, seed):
    return _ser.run_ser("C02", tier, seed, "RT", ["xml"], ["plain", "force"], ["plain", "force"], CLAUSES)


def replay(path):
    return _ser.replay("C02", path)
