"""C01 — PROV-JSON round trip preserves every document exactly (strict,
URI-level, kind-aware bag comparison of the projections)."""
from props import _ser

CLAUSES = ["C01_noexc", "C01_rt"]


def run(tier, seed):
    return _ser.run_ser("C01", tier, seed, "RT", ["json"], ["plain", "all"],
                        ["plain", "indent", "sort", "ascii", "all"], CLAUSES)


def replay(path):
    return _ser.replay("C01", path)
