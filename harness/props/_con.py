"""Shared runner for the container scenarios of MC_Con (C18, C09, C08, C12)."""
import json

import tlcrun
from tlcrun import MachineryError
import pipeline


def cfg(module_consts, emit="no", walk=0, props=(), invs=()):
    c = dict(module_consts)
    c["Emit"] = json.dumps(emit)
    c["WalkLen"] = walk
    return dict(spec="Spec", view="View", constants=c, properties=list(props), invariants=list(invs))


def run_model(pid, module, consts_A, consts_B, consts_S, nsetup, walk_len, nwalks, seed,
              clauses, init="empty", props=(), invs=("IndexOK",), extra_behaviours=(), extra_B=(),
              heapA="24g"):
    tag = pid
    A = tlcrun.run_mc(tag + "/A", module, cfg(consts_A, "no", 0, props, invs), workers=16,
                      timeout=3000, heap=heapA)
    if A["errors"] or not A["complete"]:
        raise MachineryError("model-level check (A) of %s did not pass: %s\n%s"
                             % (module, A["errors"][:3], A["raw_tail"][-1500:]))
    B = tlcrun.run_mc(tag + "/B", module, cfg(consts_B, "all"), workers=1, timeout=3000, heap="8g")
    if B["errors"] or not B["complete"]:
        raise MachineryError("behaviour generation (B) failed: %s\n%s" % (B["errors"][:3], B["raw_tail"][-800:]))
    behaviours = [(h, len(h)) for h in B["tr"]]
    for cb in extra_B:
        B2 = tlcrun.run_mc(tag + "/B2", module, cfg(cb, "all"), workers=1, timeout=3000, heap="8g")
        if B2["errors"] or not B2["complete"]:
            raise MachineryError("behaviour generation (B2) failed: %s" % B2["errors"][:3])
        behaviours += [(h, len(h)) for h in B2["tr"]]
        B["tr"] = B["tr"] + B2["tr"]
        B["wall_s"] += B2["wall_s"]
    S = {"wall_s": 0, "tr": []}
    walks = []
    if nwalks:
        S = tlcrun.run_mc(tag + "/S", module, cfg(consts_S, "walk", walk_len), workers=1,
                          timeout=1800, simulate="num=%d" % nwalks, seed=seed + 1, heap="4g")
        walks = tlcrun.pick_walks(S["tr"], seed)
        behaviours += [(h, nsetup + 1) for h in walks]
    behaviours += list(extra_behaviours)
    R = pipeline.replay_and_validate(tag + "/C", init, behaviours, seed=seed)
    for c in clauses:
        if R["nonvacuous"].get(c, 0) == 0:
            raise MachineryError("clause %s was never exercised (vacuous run)" % c)
    ops = {}
    for h, f in behaviours:
        ops[h[-1]["op"]] = ops.get(h[-1]["op"], 0) + 1
    ev = {
        "level": "model_checking",
        "coverage": {
            "states": A["distinct"], "transitions": A["generated"],
            "traces_validated_against_impl": R["traces"], "steps_validated": R["steps"],
            "exhaustive": True,
            "bounds": {"A": consts_A, "B": consts_B, "walks": len(walks), "walk_len": walk_len - nsetup},
            "B_transitions_replayed": len(B["tr"]),
            "last_op_counts": ops,
            "clause_nonvacuous_traces": R["nonvacuous"],
            "samples": [{"hist": R["sample"]["hist"][nsetup:],
                         "last_step": {k: v for k, v in R["sample"]["steps"][-1].items()
                                       if k in ("op", "exc", "res", "post")}}],
            "timing": {"A_s": A["wall_s"], "B_s": B["wall_s"], "S_s": S["wall_s"],
                       "drive_s": R["t_drive"], "trace_s": R["t_trace"]},
        },
        "assumptions": ["TLC; harness/project.py + vocab.py (projection through the public API)"],
    }
    return {"fails": R["fails"], "init": init, "evidence": ev}


def replay(pid, path):
    r = json.load(open(path))
    R = pipeline.replay_and_validate(pid + "/replay", r["init"], [(r["hist"], r.get("from", 1), r.get("tid", 1))], shards=1, seed=r.get("seed", 0))
    last = R["sample"]["steps"][-1]
    print(json.dumps({k: last[k] for k in ("op", "exc", "res")}, indent=1)[:3000])
    return {"fails": R["fails"], "init": r["init"], "evidence": None}
