"""C08 — see DESIGN.md section 3.  MC_Con scenario c08: (A) model + IndexCoherent,
(B) all transitions replayed on the real library, (C) Trace.tla clauses."""
from props import _con

CLAUSES = ["C08_result", "C08_conflict", "C08_raise", "C08_pure"]
NSETUP = 5
DEPTH_A = (3, 4)
DEPTH_B = (2, 3)
WALK = 6
NWALKS = (200, 2000)


def run(tier, seed):
    quick = tier != "thorough"
    base = {"Scenario": '"c08"'}
    ns = NSETUP
    return _con.run_model("C08", "MC_Con",
                          dict(base, MaxDepth=DEPTH_A[0 if quick else 1]),
                          dict(base, MaxDepth=DEPTH_B[0 if quick else 1]),
                          dict(base, MaxDepth=WALK), nsetup=ns, walk_len=ns + WALK,
                          nwalks=NWALKS[0 if quick else 1], seed=seed, clauses=CLAUSES,
                          # (depth 4 of c08b/c08c is 1.5 million behaviours: more than the replay can hold)
                          extra_B=[{"Scenario": '"c08b"', "MaxDepth": 3},
                                   {"Scenario": '"c08c"', "MaxDepth": 3},
                                   {"Scenario": '"c08d"', "MaxDepth": 3 if quick else 5},
                                   {"Scenario": '"c08e"', "MaxDepth": 3 if quick else 4},
                                   {"Scenario": '"c08f"', "MaxDepth": 3 if quick else 4}])


def replay(path):
    return _con.replay("C08", path)
