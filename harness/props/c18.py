"""C18 — identifier lookup and typed listing agree with the record list.
(A) IndexCoherent on MC_Con (scenario c18: every insertion path);
(B)+(C) every transition replayed, lookups in every string spelling, typed
listings and the copy check observed after every call."""
from props import _con

CLAUSES = ["C18_lookup", "C18_typed", "C18_copy", "C18_get", "C18_held"]


def run(tier, seed):
    quick = tier != "thorough"
    dA = 3 if quick else 4
    dB = 2 if quick else 3
    base = {"Scenario": '"c18"'}
    return _con.run_model("C18", "MC_Con",
                          dict(base, MaxDepth=dA), dict(base, MaxDepth=dB),
                          dict(base, MaxDepth=5), nsetup=5, walk_len=10,
                          nwalks=150 if quick else 1500, seed=seed, clauses=CLAUSES,
                          extra_B=[{"Scenario": '"c18b"', "MaxDepth": 2 if quick else 3},
                                   {"Scenario": '"c18c"', "MaxDepth": 2 if quick else 3}])


def replay(path):
    return _con.replay("C18", path)
