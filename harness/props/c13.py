"""C13 — exporting never mutates the document and is repeatable: every ordered
pair (and a triple repetition) of exporters on MC_Ser documents; purity by the
frame condition on all live handles, repeatability against the previous call
and against a twin document built by the same calls."""
import json

import tlcrun
from tlcrun import MachineryError
import pipeline
from props import _ser

CLAUSES = ["C13_pure", "C13_repeat", "C13_twin"]
EXPORTERS_Q = ["json", "xml", "xmlforce", "provn", "rdf", "dot", "graph", "unified", "flattened", "eq", "eqother", "hash"]
EXPORTERS_T = EXPORTERS_Q + ["jsonsort", "dotlabels", "getprovn"]


def run(tier, seed):
    quick = tier != "thorough"
    exps = EXPORTERS_Q if quick else EXPORTERS_T
    runs = [("shapes", 2, "min", ["entity", "generation"]), ("ns", 2, "min", ["entity"]),      # (depth 3 x 420 export sequences cannot be printed in an hour)
            # a document that cannot be unified: exporters that unify first must still leave it alone
            ("conflict", 1, "min", ["entity"]),
            # a bundle named in a namespace only the bundle knows, attached with add_bundle()
            ("addb", 1 if quick else 2, "min", ["entity"])]
    if not quick:
        runs.append(("shapes", 1, "values", ["entity", "association"]))
    behaviours = []
    stA = stT = 0
    wall = 0.0
    for (mode, depth, extra, ks) in runs:
        A = tlcrun.run_mc("C13/A", "MC_Ser", _ser.cfg(mode, depth, "Export", exps, ["plain"], extra, ks),
                          workers=16, timeout=3000, heap="16g")
        if A["errors"] or not A["complete"]:
            raise MachineryError("model run (A) of MC_Ser did not pass: %s" % A["errors"][:3])
        stA += A["distinct"]; stT += A["generated"]; wall += A["wall_s"]
        B = tlcrun.run_mc("C13/B", "MC_Ser", _ser.cfg(mode, depth, "Export", exps, ["plain"], extra, ks, emit="final"),
                          workers=1, timeout=3000, heap="8g")
        if B["errors"] or not B["complete"]:
            raise MachineryError("behaviour generation (B) failed: %s" % B["errors"][:3])
        wall += B["wall_s"]
        hs = B["tr"]
        cap = 3000 if quick else 15000
        if len(hs) > cap:
            import random
            rng = random.Random(seed)
            hs = rng.sample(hs, cap)
        behaviours += [(h, len(h)) for h in hs]
    R = pipeline.replay_and_validate("C13/C", "empty", behaviours, seed=seed)
    for c in CLAUSES:
        if R["nonvacuous"].get(c, 0) == 0:
            raise MachineryError("clause %s was never exercised (vacuous run)" % c)
    ev = {
        "level": "model_checking",
        "coverage": {
            "states": stA, "transitions": stT, "traces_validated_against_impl": R["traces"],
            "steps_validated": R["steps"], "exhaustive": quick is False,
            "bounds": {"exporters": exps, "sequences": "all ordered pairs + one triple repetition per exporter",
                       "document_runs": [dict(mode=m, depth=d, extras=e, kinds=k) for (m, d, e, k) in runs],
                       "sampled_in_quick": True},
            "clause_nonvacuous_traces": R["nonvacuous"],
            "samples": [{"hist": R["sample"]["hist"][2:], "res": R["sample"]["steps"][-1]["res"]}],
            "timing": {"AB_s": round(wall, 1), "drive_s": R["t_drive"], "trace_s": R["t_trace"]},
        },
        "assumptions": ["text equality decided in the harness (== ; RDF by graph isomorphism)"],
    }
    return {"fails": R["fails"], "init": "empty", "evidence": ev}


def replay(path):
    import os
    os.environ["VERIF_WARMUP"] = "1"      # see drive.run_behaviour: exports before the replayed one
    return _ser.replay("C13", path)
