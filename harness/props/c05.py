"""C05 — records stay in normal form.  (A) MC_C05: every kind x construction
scheme x follow-up calls, clauses on the model; (B) all transitions replayed
on the real ProvRecord; (C) Trace.tla evaluates the C05 clauses."""
import json

import tlcrun
from tlcrun import MachineryError, tla_set
import pipeline

PROPS = ["PropC05_single", "PropC05_typed", "PropC05_refuse", "PropC05_idem",
         "PropC05_accumulate", "PropC05_new", "PropC05_exact"]
KINDS = ["entity", "activity", "agent", "generation", "usage", "communication", "start", "end",
         "invalidation", "derivation", "attribution", "association", "delegation", "influence",
         "specialization", "alternate", "mention", "membership"]
NSETUP = 4
CLAUSES = ["C05_single", "C05_typed", "C05_refuse", "C05_idem", "C05_accumulate", "C05_new", "C05_exact"]


def cfg(follow, kinds, emit, props=(), invs=(), walk=0):
    return dict(spec="Spec", view="View",
                constants={"MaxFollow": follow, "UseKinds": tla_set(kinds),
                           "Emit": json.dumps(emit), "WalkLen": walk},
                properties=list(props),
                invariants=list(invs))


def run(tier, seed):
    quick = tier != "thorough"
    fA = 2
    A = tlcrun.run_mc("C05/A", "MC_C05", cfg(fA, KINDS, "no", PROPS, ["IndexOK"]),
                      workers=16, timeout=3000, heap="24g")
    if A["errors"] or not A["complete"]:
        raise MachineryError("model-level check (A) of MC_C05 did not pass: %s\n%s"
                             % (A["errors"][:3], A["raw_tail"][-1500:]))
    fB = 1 if quick else 2
    B = tlcrun.run_mc("C05/B", "MC_C05", cfg(fB, KINDS, "all"), workers=1, timeout=3000, heap="8g")
    if B["errors"] or not B["complete"]:
        raise MachineryError("behaviour generation (B) failed: %s" % B["errors"][:3])
    behaviours = [(h, len(h)) for h in B["tr"]]
    if quick:
        # plus seeded two-follow-up walks, every step after the setup checked
        S = tlcrun.run_mc("C05/S", "MC_C05", cfg(2, KINDS, "walk", walk=NSETUP + 3), workers=1, timeout=1200,
                          simulate="num=%d" % (400 if quick else 4000), seed=seed + 1, heap="4g")
        walks = tlcrun.pick_walks(S["tr"], seed)
        behaviours += [(h, NSETUP + 1) for h in walks]
    R = pipeline.replay_and_validate("C05/C", "doc", behaviours, seed=seed)
    for c in CLAUSES:
        if R["nonvacuous"].get(c, 0) == 0:
            raise MachineryError("clause %s was never exercised (vacuous run)" % c)
    kinds = {}
    for h, f in behaviours:
        k = h[NSETUP]["k"]
        kinds[k] = kinds.get(k, 0) + 1
    ev = {
        "level": "model_checking",
        "coverage": {
            "states": A["distinct"], "transitions": A["generated"],
            "traces_validated_against_impl": R["traces"], "steps_validated": R["steps"],
            "exhaustive": True,
            "bounds": {"A_followups": fA, "B_followups": fB, "kinds": len(KINDS),
                       "construction": "via x identified? x 3 masks x 3 representation schemes"},
            "behaviours_per_kind": kinds,
            "clause_nonvacuous_traces": R["nonvacuous"],
            "samples": [{"hist": R["sample"]["hist"][NSETUP:], "last_step": R["sample"]["steps"][-1]}],
            "timing": {"A_s": A["wall_s"], "B_s": B["wall_s"], "drive_s": R["t_drive"],
                       "trace_s": R["t_trace"], "S_s": S["wall_s"] if quick else 0},
        },
        "assumptions": ["TLC; harness/project.py + vocab.py", "value tokens stand for pools of concrete values (seeded)"],
    }
    return {"fails": R["fails"], "init": "doc", "evidence": ev}


def replay(path):
    r = json.load(open(path))
    R = pipeline.replay_and_validate("C05/replay", r["init"], [(r["hist"], r.get("from", 1), r.get("tid", 1))], shards=1, seed=r.get("seed", 0))
    print(json.dumps(R["sample"]["steps"][-1], indent=1)[:4000])
    return {"fails": R["fails"], "init": r["init"], "evidence": None}
