"""C11 — reading foreign PROV-JSON / PROV-XML is stable under re-serialisation.
(1) MC_Ser documents rendered by a specification-driven generator
(harness/foreign.py) under the spelling flag sets TLC enumerates, loaded,
re-written, re-loaded and cross-converted; (2) the ProvToolbox corpus files
with single-point mutations (MC_Corpus).  TLC judges the logged projections."""
import random

import tlcrun
from tlcrun import MachineryError
import pipeline
from props import _ser

CLAUSES = ["C11_stable", "C11_cross", "C11_faithful", "C11_preserve", "C11_corpus_loads"]


def run(tier, seed):
    quick = tier != "thorough"
    runs = [("shapes", 1, "values", ["entity", "association"]), ("shapes", 1, "attrs", ["agent", "derivation", "entity"]),
            ("shapes", 1, "min", _ser.ALL_KINDS), ("shapes", 3, "min", ["membership"]),
            # records sharing an identifier (array form) that differ in their optional arguments
            ("shapes", 2, "min", ["generation", "activity"]),
            # names of several namespaces at document and bundle level (prefix re-binding in the bundle)
            ("ns", 2, "min", ["entity"]),
            # a bundle named in a namespace of its own (third namespace next to the document's and the re-bound one)
            ("addb", 1, "min", ["entity"]), ("addbd", 2, "min", ["entity"])]
    behaviours = []
    stA = stT = 0
    wall = 0.0
    for (mode, depth, extra, ks) in runs:
        A = tlcrun.run_mc("C11/A", "MC_Ser", _ser.cfg(mode, depth, "Load", ["json", "xml"], ["plain"], extra, ks),
                          workers=16, timeout=3000, heap="16g")
        if A["errors"] or not A["complete"]:
            raise MachineryError("model run (A) of MC_Ser did not pass: %s\n%s" % (A["errors"][:3], A["raw_tail"][-800:]))
        stA += A["distinct"]; stT += A["generated"]; wall += A["wall_s"]
        B = tlcrun.run_mc("C11/B", "MC_Ser", _ser.cfg(mode, depth, "Load", ["json", "xml"], ["plain"], extra, ks, emit="final"),
                          workers=1, timeout=3000, heap="8g")
        if B["errors"] or not B["complete"]:
            raise MachineryError("behaviour generation (B) failed: %s" % B["errors"][:3])
        wall += B["wall_s"]
        hs = B["tr"]
        cap = 12000 if quick else 100000
        if len(hs) > cap:
            hs = random.Random(seed).sample(hs, cap)
        behaviours += [(h, len(h)) for h in hs]
    Cc = tlcrun.run_mc("C11/K", "MC_Corpus", dict(spec="Spec", view=None,
                                                   constants={"NJson": 398, "NXml": 45, "Emit": '"all"'}),
                       workers=1, timeout=600, heap="2g")
    if Cc["errors"] or not Cc["complete"]:
        raise MachineryError("MC_Corpus failed: %s" % Cc["errors"][:3])
    ks = Cc["tr"]
    if quick:
        rng = random.Random(seed)
        byfile = {}
        for h in ks:
            byfile.setdefault((h[0]["fmt"], h[0]["idx"]), []).append(h)
        ks = [rng.choice([x for x in v if x[0]["mut"] != "none"] or v) for v in byfile.values()]
    behaviours += [(h, 1) for h in ks]
    R = pipeline.replay_and_validate("C11/C", "empty", behaviours, seed=seed)
    for c in CLAUSES:
        if R["nonvacuous"].get(c, 0) == 0:
            raise MachineryError("clause %s was never exercised (vacuous run)" % c)
    ev = {"level": "model_checking",
          "coverage": {"states": stA, "transitions": stT, "traces_validated_against_impl": R["traces"],
                       "steps_validated": R["steps"], "exhaustive": False,
                       "bounds": {"flag_sets": 31, "formats": ["json", "xml"],
                                  "document_runs": [dict(mode=m, depth=d, extras=e, kinds=len(k)) for (m, d, e, k) in runs],
                                  "corpus_calls": len(ks), "corpus_files": {"json": 398, "xml": 45},
                                  "mutations": ["reorder", "wrap", "recarr", "rename", "tobundle"]},
                       "clause_nonvacuous_traces": R["nonvacuous"],
                       "samples": [{"call": R["sample"]["hist"][-1], "exc": R["sample"]["steps"][-1]["res"].get("exc")}],
                       "timing": {"AB_s": round(wall, 1), "drive_s": R["t_drive"], "trace_s": R["t_trace"]}},
          "assumptions": ["the foreign texts come from harness/foreign.py (own prefix table and key tables), "
                          "the corpus mutations are generated in Python; TLC enumerates flag sets / (file, mutation) "
                          "pairs and judges the logged projections",
                          "XML corpus files are loaded unmutated; cross conversion is checked for generated texts only"]}
    return {"fails": R["fails"], "init": "empty", "evidence": ev}


def replay(path):
    return _ser.replay("C11", path)
