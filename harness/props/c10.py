"""C10 — emitted PROV-JSON and PROV-XML mean the same to an independent reader
(SpecJson.tla / SpecXml.tla, written from the specifications, evaluated by TLC
on the lexed text the library really wrote)."""
from props import _ser

CLAUSES = ["C10_wf_json", "C10_read_json", "C10_wf_xml", "C10_read_xml"]


def run(tier, seed):
    # "plain" exists for both formats; "all" is a json.dump option set, "force" is xml force_types
    return _ser.run_ser("C10", tier, seed, "RT", ["json", "xml"], ["plain", "alt"], ["plain", "alt"], CLAUSES)


def replay(path):
    return _ser.replay("C10", path)
