"""C10 — emitted PROV-JSON and PROV-XML mean the same to an independent reader
(SpecJson.tla / SpecXml.tla, written from the specifications, evaluated by TLC
on the lexed text the library really wrote)."""
from props import _ser

CLAUSES = ["C10_wf_json", "C10_read_json"]


def run(tier, seed):
    return _ser.run_ser("C10", tier, seed, "RT", ["json"], ["plain", "all"],
                        ["plain", "indent", "sort", "ascii", "all"], CLAUSES)


def replay(path):
    return _ser.replay("C10", path)
