"""C09 — see DESIGN.md section 3.  MC_Con scenario c09: (A) model + IndexCoherent,
(B) all transitions replayed on the real library, (C) Trace.tla clauses."""
from props import _con

CLAUSES = ["C09_flat", "C09_update", "C09_update_bundle", "C09_addbundle_ok", "C09_addbundle_refuse", "C09_bundle"]
NSETUP = 10
DEPTH_A = (3, 4)
DEPTH_B = (2, 3)
WALK = 5
NWALKS = (150, 1500)


def run(tier, seed):
    quick = tier != "thorough"
    base = {"Scenario": '"c09"'}
    ns = NSETUP
    return _con.run_model("C09", "MC_Con",
                          dict(base, MaxDepth=DEPTH_A[0 if quick else 1]),
                          dict(base, MaxDepth=DEPTH_B[0 if quick else 1]),
                          dict(base, MaxDepth=WALK), nsetup=ns, walk_len=ns + WALK,
                          nwalks=NWALKS[0 if quick else 1], seed=seed, clauses=CLAUSES,
                          extra_B=[{"Scenario": '"c09b"', "MaxDepth": 2 if quick else 4},
                                   {"Scenario": '"c09c"', "MaxDepth": 3 if quick else 4}])


def replay(path):
    return _con.replay("C09", path)
