"""Shared runner for the serialisation properties on MC_Ser (C01, C02, C06, C10, ...)."""
import json

import tlcrun
from tlcrun import MachineryError, tla_set
import pipeline

ALL_KINDS = ["entity", "activity", "agent", "generation", "usage", "communication", "start", "end",
             "invalidation", "derivation", "attribution", "association", "delegation", "influence",
             "specialization", "alternate", "mention", "membership"]


def cfg(mode, depth, final_op, fmts, opts, extra, kinds, emit="no", walk=0, invs=("IndexOK",)):
    return dict(spec="Spec", view="View",
                constants={"Mode": json.dumps(mode), "MaxDepth": depth, "FinalOp": json.dumps(final_op),
                           "Fmts": tla_set(fmts), "Opts": tla_set(opts), "ExtraPreset": json.dumps(extra),
                           "KindSet": tla_set(kinds), "Emit": json.dumps(emit), "WalkLen": walk},
                invariants=list(invs))


def run_ser(pid, tier, seed, final_op, fmts, opts_quick, opts_thorough, clauses, kinds=None):
    quick = tier != "thorough"
    kinds = kinds or ALL_KINDS
    opts = opts_quick if quick else opts_thorough
    runs = []
    # (1) every shape (kind x mask x identified?) with the minimal attribute sets
    runs.append(("shapes", 1, "min", kinds, opts))
    # (2) every attribute class x value kind on a few kinds
    runs.append(("shapes", 1, "all" if not quick else "values", ["entity", "generation", "derivation"]
                 if not quick else ["entity", "association"], opts))
    runs.append(("shapes", 1, "attrs", ["agent", "derivation", "entity"], opts[:1]))
    # (3) a second record / a bundle next to the first
    runs.append(("shapes", 2 if quick else 3, "min", ["entity", "generation", "membership", "activity"], opts[:1]))
    # (4) namespace histories on the document and its bundle
    runs.append(("ns", 2 if quick else 3, "min", ["entity"], opts[:1]))
    # (5) a document with a default namespace and two bundles
    runs.append(("ns2", 3 if quick else 4, "min", ["entity"], opts[:1]))
    # (6) a bundle built on its own, named in a namespace of its own, attached with add_bundle()
    runs.append(("addb", 1 if quick else 2, "min", ["entity"], opts[:1]))
    behaviours = []
    stA = stT = 0
    wallA = wallB = 0.0
    nsetup = {}
    for (mode, depth, extra, ks, os_) in runs:
        invs = ("IndexOK",) + (("JsonDenotes", "JsonRoundTrip") if "json" in fmts else ()) + (("XmlDenotes", "XmlRoundTrip") if "xml" in fmts else ()) \
            + (("ProvNDenotes",) if "provn" in fmts else ())
        A = tlcrun.run_mc(pid + "/A", "MC_Ser", cfg(mode, depth, final_op, fmts, os_, extra, ks, invs=invs), workers=16,
                          timeout=3000, heap="16g")
        if A["errors"] or not A["complete"]:
            raise MachineryError("model run (A) of MC_Ser did not pass: %s\n%s" % (A["errors"][:3], A["raw_tail"][-1200:]))
        stA += A["distinct"]
        stT += A["generated"]
        wallA += A["wall_s"]
        B = tlcrun.run_mc(pid + "/B", "MC_Ser", cfg(mode, depth, final_op, fmts, os_, extra, ks, emit="final"),
                          workers=1, timeout=3000, heap="8g")
        if B["errors"] or not B["complete"]:
            raise MachineryError("behaviour generation (B) failed: %s" % B["errors"][:3])
        wallB += B["wall_s"]
        behaviours += [(h, len(h)) for h in B["tr"]]
    R = pipeline.replay_and_validate(pid + "/C", "empty", behaviours, seed=seed)
    for c in clauses:
        if R["nonvacuous"].get(c, 0) == 0:
            raise MachineryError("clause %s was never exercised (vacuous run)" % c)
    kinds_seen = {}
    for h, f in behaviours:
        for a in h:
            if a["op"] == "NewRec":
                kinds_seen[a["k"]] = kinds_seen.get(a["k"], 0) + 1
    last = R["sample"]["steps"][-1]
    ev = {
        "level": "model_checking",
        "coverage": {
            "states": stA, "transitions": stT,
            "traces_validated_against_impl": R["traces"], "steps_validated": R["steps"],
            "exhaustive": True,
            "bounds": {"runs": [dict(mode=m, depth=d, extras=e, kinds=len(k), opts=o) for (m, d, e, k, o) in runs],
                       "formats": fmts},
            "records_by_kind": kinds_seen,
            "clause_nonvacuous_traces": R["nonvacuous"],
            "samples": [{"hist": [a for a in R["sample"]["hist"] if a["op"] not in ("NewDoc",)],
                         "exc": last["exc"], "src": last.get("src"), "back": last.get("back")}],
            "timing": {"A_s": round(wallA, 1), "B_s": round(wallB, 1), "drive_s": R["t_drive"], "trace_s": R["t_trace"]},
        },
        "assumptions": ["TLC; harness/project.py + vocab.py; lexers lex_json/lex_xml/lex_provn (lexical questions only)",
                        "character-level fidelity is sampled through seeded representatives of the value tokens, not enumerated"],
    }
    return {"fails": R["fails"], "init": "empty", "evidence": ev}


def replay(pid, path):
    r = json.load(open(path))
    R = pipeline.replay_and_validate(pid + "/replay", r["init"], [(r["hist"], r.get("from", 1), r.get("tid", 1))], shards=1, seed=r.get("seed", 0))
    last = R["sample"]["steps"][-1]
    print(json.dumps({k: last.get(k) for k in ("op", "exc", "stage", "src", "back")}, indent=1)[:4000])
    return {"fails": R["fails"], "init": r["init"], "evidence": None}
