"""C16 — all source/destination kinds agree, and prov.read detects the format.
(A) IO.tla: the detection loop over a stream-position machine returns the
document for every readable format x source kind (the original, unbuffered loop
is checked NOT to); (B) one IO call per format x document variant from TLC;
(C) Trace.tla judges the equality bits / digests and binds the outcome classes
to the IO machine."""
import json

import tlcrun
from tlcrun import MachineryError
import pipeline

CLAUSES = ["C16_same_text", "C16_same_doc", "C16_read"]


def run(tier, seed):
    cfgd = dict(spec="Spec", view=None, constants={"Emit": '"all"'})
    B = tlcrun.run_mc("C16/AB", "MC_IO", cfgd, workers=1, timeout=300, heap="2g")
    if B["errors"] or not B["complete"]:
        raise MachineryError("MC_IO (assumptions ReadOK(TRUE), ~ReadOK(FALSE)) failed: %s\n%s"
                             % (B["errors"][:3], B["raw_tail"][-800:]))
    reps = 1 if tier != "thorough" else 6
    behaviours = [(h, 1) for h in B["tr"]] * reps
    R = pipeline.replay_and_validate("C16/C", "empty", behaviours, seed=seed)
    for c in CLAUSES:
        if R["nonvacuous"].get(c, 0) == 0:
            raise MachineryError("clause %s was never exercised (vacuous run)" % c)
    ev = {
        "level": "model_checking",
        "coverage": {
            "states": max(B["distinct"], 1), "transitions": max(B["generated"], 1),
            "traces_validated_against_impl": R["traces"], "steps_validated": R["steps"],
            "exhaustive": True,
            "model": "IO.tla: ReadOK(TRUE) and ~ReadOK(FALSE) evaluated over 3 formats x 3 source kinds x {explicit, detect}",
            "product_per_call": "4 destinations x 5 source kinds x 3 read sources x {explicit, detect}",
            "clause_nonvacuous_traces": R["nonvacuous"],
            "samples": [{"call": R["sample"]["hist"][0], "res": R["sample"]["steps"][0]["res"]}],
            "timing": {"AB_s": B["wall_s"], "drive_s": R["t_drive"], "trace_s": R["t_trace"]},
        },
        "assumptions": ["documents are the driver's sample documents (6 variants x seeded value pools), not the full C01 space",
                        "LC_ALL=C.UTF-8 (path sources are opened in text mode with the locale encoding)",
                        "XML texts are compared by canonical form, RDF texts by graph isomorphism (rdflib)"],
    }
    return {"fails": R["fails"], "init": "empty", "evidence": ev}


def replay(path):
    r = json.load(open(path))
    R = pipeline.replay_and_validate("C16/replay", r["init"], [(r["hist"], 1, r.get("tid", 1))], shards=1, seed=r.get("seed", 0))
    print(json.dumps(R["sample"]["steps"][0]["res"], indent=1)[:3000])
    return {"fails": R["fails"], "init": r["init"], "evidence": None}
