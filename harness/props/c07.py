"""C07 — PROV-O (RDF, TriG) round trip preserves the unified content of
expressible documents.  MC_Ser mode "rdf" generates the expressible space
stated by the property; the verdict comes from the round trip on the real
library (set-based comparison against UnifiedSpec written in TLA+)."""
import tlcrun
from tlcrun import MachineryError
import pipeline
from props import _ser

CLAUSES = ["C07_noexc", "C07_rt", "C07_one"]
KINDS = [k for k in _ser.ALL_KINDS if k != "mention"]


def run(tier, seed):
    quick = tier != "thorough"
    runs = [("rdf", 1, KINDS), ("rdf", 2 if quick else 3, ["entity", "association", "start"]),
            ("rdf", 3, ["agent"])]
    behaviours = []
    stA = stT = 0
    wall = 0.0
    for (mode, depth, ks) in runs:
        A = tlcrun.run_mc("C07/A", "MC_Ser", _ser.cfg(mode, depth, "RT", ["rdf"], ["plain"], "min", ks),
                          workers=16, timeout=3000, heap="16g")
        if A["errors"] or not A["complete"]:
            raise MachineryError("model run (A) of MC_Ser did not pass: %s\n%s" % (A["errors"][:3], A["raw_tail"][-800:]))
        stA += A["distinct"]; stT += A["generated"]; wall += A["wall_s"]
        B = tlcrun.run_mc("C07/B", "MC_Ser", _ser.cfg(mode, depth, "RT", ["rdf"], ["plain"], "min", ks, emit="final"),
                          workers=1, timeout=3000, heap="8g")
        if B["errors"] or not B["complete"]:
            raise MachineryError("behaviour generation (B) failed: %s" % B["errors"][:3])
        wall += B["wall_s"]
        hs = B["tr"]
        cap = 5000 if quick else 100000
        if len(hs) > cap:
            import random
            hs = random.Random(seed).sample(hs, cap)
        behaviours += [(h, len(h)) for h in hs]
    R = pipeline.replay_and_validate("C07/C", "empty", behaviours, seed=seed)
    for c in CLAUSES:
        if R["nonvacuous"].get(c, 0) == 0:
            raise MachineryError("clause %s was never exercised (vacuous run)" % c)
    last = R["sample"]["steps"][-1]
    ev = {"level": "model_checking",
          "coverage": {"states": stA, "transitions": stT, "traces_validated_against_impl": R["traces"],
                       "steps_validated": R["steps"], "exhaustive": not quick,
                       "bounds": {"runs": [dict(mode=m, depth=d, kinds=len(k)) for (m, d, k) in runs],
                                  "expressible_space": "RdfOK / RdfMasks / RdfExtras / RdfComplete in MC_Ser.tla"},
                       "clause_nonvacuous_traces": R["nonvacuous"],
                       "samples": [{"hist": R["sample"]["hist"][2:], "exc": last["exc"], "back": last.get("back")}],
                       "timing": {"AB_s": round(wall, 1), "drive_s": R["t_drive"], "trace_s": R["t_trace"]}},
          "assumptions": ["no TLA+ model of the PROV-O encoder/decoder: the model contributes the expressible space, "
                          "UnifiedSpec and the clauses; rdflib parses/serialises TriG"]}
    return {"fails": R["fails"], "init": "empty", "evidence": ev}


def replay(path):
    return _ser.replay("C07", path)
