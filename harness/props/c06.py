"""C06 — PROV-N output is well-formed and denotes the same document: the text
of get_provn() is parsed by an independent parser of the W3C grammar
(lex_provn.py) and read by SpecProvN.tla (argument positions, markers,
literals, declarations), then compared with the source projection."""
from props import _ser

CLAUSES = ["C06_parses", "C06_grammar", "C06_denotes"]


def run(tier, seed):
    return _ser.run_ser("C06", tier, seed, "RT", ["provn"], ["plain"], ["plain"], CLAUSES)


def replay(path):
    return _ser.replay("C06", path)
