"""C15 — DOT output is always valid Graphviz: one node per element, one path
per relation.  MC_Ser documents (graph mode: n-ary relations, undeclared
endpoints, missing arguments, labels and values from the quoting-hazard pools;
shapes mode with a bundle) x all 16 combinations of the display options x
directions; Graphviz (`dot -Tdot_json`) parses the emitted text and TLC
compares its structure with DotOf written from the statement."""
import random

import tlcrun
from tlcrun import MachineryError
import pipeline
from props import _ser

CLAUSES = ["C15_accepted", "C15_nodes", "C15_edges", "C15_clusters", "C15_annotations", "C15_rankdir", "C15_labels"]


def run(tier, seed):
    quick = tier != "thorough"
    dirs = ["BT", "LR", "sideways"] if quick else ["BT", "TB", "LR", "RL", "sideways"]
    runs = [("graph", 2 if quick else 3, "min", ["entity"]), ("shapes", 2, "min", ["entity", "start"]),
            ("shapes", 1, "attrs", ["agent", "derivation"]),
            # blank-node relations at top level and in a bundle; a bundle stating one element twice
            ("dotb", 1, "min", ["entity"])]
    behaviours = []
    stA = stT = 0
    wall = 0.0
    for (mode, depth, extra, ks) in runs:
        A = tlcrun.run_mc("C15/A", "MC_Ser", _ser.cfg(mode, depth, "Dot", ["dot"], dirs, extra, ks),
                          workers=16, timeout=3000, heap="16g")
        if A["errors"] or not A["complete"]:
            raise MachineryError("model run (A) of MC_Ser did not pass: %s" % A["errors"][:3])
        stA += A["distinct"]; stT += A["generated"]; wall += A["wall_s"]
        B = tlcrun.run_mc("C15/B", "MC_Ser", _ser.cfg(mode, depth, "Dot", ["dot"], dirs, extra, ks, emit="final"),
                          workers=1, timeout=3000, heap="8g")
        if B["errors"] or not B["complete"]:
            raise MachineryError("behaviour generation (B) failed: %s" % B["errors"][:3])
        wall += B["wall_s"]
        hs = B["tr"]
        cap = 4000 if quick else 40000
        if len(hs) > cap:
            hs = random.Random(seed).sample(hs, cap)
        behaviours += [(h, len(h)) for h in hs]
    R = pipeline.replay_and_validate("C15/C", "empty", behaviours, seed=seed)
    for c in CLAUSES:
        if R["nonvacuous"].get(c, 0) == 0:
            raise MachineryError("clause %s was never exercised (vacuous run)" % c)
    ev = {"level": "model_checking",
          "coverage": {"states": stA, "transitions": stT, "traces_validated_against_impl": R["traces"],
                       "steps_validated": R["steps"], "exhaustive": False,
                       "bounds": {"option_combinations": 16 * len(dirs), "directions": dirs,
                                  "document_runs": [dict(mode=m, depth=d, extras=e, kinds=k) for (m, d, e, k) in runs],
                                  "sampled": True},
                       "clause_nonvacuous_traces": R["nonvacuous"],
                       "samples": [{"hist": R["sample"]["hist"][2:],
                                    "res": {k: v for k, v in R["sample"]["steps"][-1]["res"].items() if k in ("ok", "rankdir", "paths", "nodes")}}],
                       "timing": {"AB_s": round(wall, 1), "drive_s": R["t_drive"], "trace_s": R["t_trace"]}},
          "assumptions": ["Graphviz 2.43 `dot -Tdot_json` is the acceptance oracle and the DOT parser",
                          "rendered annotation VALUE texts are not compared (attribute names and row counts are)"]}
    return {"fails": R["fails"], "init": "empty", "evidence": ev}


def replay(path):
    return _ser.replay("C15", path)
