"""C04 — document equality is an equivalence that coincides with content
equivalence.  MC_Con scenario c04: three documents built from a small menu
(prefix variants, one-value changes, type swap, anonymous/identified relations,
duplicates, bundles) in every order; all pairwise comparisons at the end."""
from props import _con

CLAUSES = ["C04_refl", "C04_sym", "C04_ne", "C04_trans", "C04_content", "C04_hash"]


def run(tier, seed):
    quick = tier != "thorough"
    base = {"Scenario": '"c04"'}
    return _con.run_model("C04", "MC_Con",
                          dict(base, MaxDepth=4 if quick else 5),
                          dict(base, MaxDepth=3 if quick else 4),
                          dict(base, MaxDepth=7), nsetup=6, walk_len=13,
                          nwalks=300 if quick else 3000, seed=seed, clauses=CLAUSES,
                          props=["PropC04"],
                          extra_B=[{"Scenario": '"c04b"', "MaxDepth": 3 if quick else 4},
                                   {"Scenario": '"c04c"', "MaxDepth": 3 if quick else 4},
                                   {"Scenario": '"c04d"', "MaxDepth": 1}])


def replay(path):
    return _con.replay("C04", path)
