"""C12 — see DESIGN.md section 3.  MC_Con scenario c12: (A) model + IndexCoherent,
(B) all transitions replayed on the real library, (C) Trace.tla clauses."""
from props import _con

CLAUSES = ["C12_frame", "C12_reload"]
NSETUP = 8
DEPTH_A = (3, 4)
DEPTH_B = (2, 3)
WALK = 5
NWALKS = (150, 1500)


def reload_behaviours(quick):
    """Documents of the C01 space written and read back in every format (MC_Ser, final op RT):
    the deserialisation leg of C12 (clause C12_reload)."""
    import tlcrun
    from tlcrun import MachineryError
    from props import _ser
    out = []
    kinds = ["entity", "generation", "membership"] if quick else _ser.ALL_KINDS
    for (mode, depth, ks) in (("shapes", 1 if quick else 2, kinds), ("ns", 2, ["entity"])):
        B = tlcrun.run_mc("C12/R", "MC_Ser", _ser.cfg(mode, depth, "RT", ["json", "xml", "rdf"], ["plain"], "min", ks,
                                                       emit="final"), workers=1, timeout=3000, heap="8g")
        if B["errors"] or not B["complete"]:
            raise MachineryError("behaviour generation (reload) failed: %s" % B["errors"][:3])
        out += [(h, len(h)) for h in B["tr"]]
    return out


def run(tier, seed):
    quick = tier != "thorough"
    base = {"Scenario": '"c12"'}
    ns = NSETUP
    return _con.run_model("C12", "MC_Con",
                          dict(base, MaxDepth=DEPTH_A[0 if quick else 1]),
                          dict(base, MaxDepth=DEPTH_B[0 if quick else 1]),
                          dict(base, MaxDepth=WALK), nsetup=ns, walk_len=ns + WALK,
                          nwalks=NWALKS[0 if quick else 1], seed=seed, clauses=CLAUSES,
                          extra_behaviours=reload_behaviours(quick),
                          extra_B=[{"Scenario": '"c12b"', "MaxDepth": 2 if quick else 3},
                                   {"Scenario": '"c12c"', "MaxDepth": 2 if quick else 3}])


def replay(path):
    return _con.replay("C12", path)
