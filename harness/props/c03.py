"""C03 — qualified names keep their URI and stay unambiguous under any
namespace history.  (A) MC_C03 exhaustive; (B) every transition of the model
replayed on the real NamespaceManager; (C) Trace.tla evaluates C03a/b/c."""
import json

import tlcrun
from tlcrun import MachineryError, tla_set
import pipeline

PROPS = ["PropC03a", "PropC03b", "PropC03c"]


def cfg(depth, prefixes, emit, props=(), walk=0, uris="app", preset="none"):
    return dict(spec="Spec", view="View",
                constants={"MaxDepth": depth, "UsePrefixes": tla_set(prefixes), "UriSet": json.dumps(uris),
                           "Preset": json.dumps(preset),
                           "Emit": json.dumps(emit), "WalkLen": walk},
                properties=list(props), invariants=[])


def run(tier, seed):
    quick = tier != "thorough"
    pfx = ["ex", "dn", ""]
    # (A) exhaustive, all interleavings
    dA = 4 if quick else 5
    A = tlcrun.run_mc("C03/A", "MC_C03", cfg(dA, pfx, "no", PROPS), workers=16,
                      timeout=3000, heap="24g")
    if A["errors"] or not A["complete"]:
        raise MachineryError("model-level check (A) of MC_C03 did not pass: %s\n%s"
                             % (A["errors"][:3], A["raw_tail"][-1500:]))
    # (B) every transition of the (smaller) model, printed by TLC
    # thorough: same depth with a fourth prefix that looks like a generated one (2.7 M transitions at
    # depth 4 would mean 6 GB of recorded observations)
    dB = 3
    pfxB = pfx if quick else pfx + ["ex_1"]
    B = tlcrun.run_mc("C03/B", "MC_C03", cfg(dB, pfxB, "all"), workers=1, timeout=3000, heap="8g")
    if B["errors"] or not B["complete"]:
        raise MachineryError("behaviour generation (B) failed: %s" % B["errors"][:3])
    behaviours = [(h, len(h)) for h in B["tr"]]
    # the pre-loaded prefixes prov/xsd as ordinary members of the space
    B2 = tlcrun.run_mc("C03/B2", "MC_C03", cfg(dB, ["prov", "ex"], "all"), workers=1, timeout=3000, heap="8g")
    if B2["errors"] or not B2["complete"]:
        raise MachineryError("behaviour generation (B2) failed: %s" % B2["errors"][:3])
    behaviours += [(h, len(h)) for h in B2["tr"]]
    # the PROV / XSD namespace URIs under prefixes other than prov / xsd (and as default namespace)
    B3 = tlcrun.run_mc("C03/B3", "MC_C03", cfg(dB if not quick else 2, ["p", "xsd", ""], "all", uris="builtin"),
                       workers=1, timeout=3000, heap="8g")
    if B3["errors"] or not B3["complete"]:
        raise MachineryError("behaviour generation (B3) failed: %s" % B3["errors"][:3])
    behaviours += [(h, len(h)) for h in B3["tr"]]
    # two namespaces that differ only by a trailing '#'
    B5 = tlcrun.run_mc("C03/B5", "MC_C03", cfg(2 if quick else 3, ["ex", "dn", ""], "all", uris="hash"),
                       workers=1, timeout=3000, heap="8g")
    if B5["errors"] or not B5["complete"]:
        raise MachineryError("behaviour generation (B5) failed: %s" % B5["errors"][:3])
    behaviours += [(h, len(h)) for h in B5["tr"]]
    # document and bundle have both been told to use one default namespace; then every history
    B4 = tlcrun.run_mc("C03/B4", "MC_C03", cfg(2 if quick else 3, ["ex", ""], "all", preset="dflt"),
                       workers=1, timeout=3000, heap="8g")
    if B4["errors"] or not B4["complete"]:
        raise MachineryError("behaviour generation (B4) failed: %s" % B4["errors"][:3])
    behaviours += [(h, len(h)) for h in B4["tr"]]
    # seeded random walks of the same model, longer and not shortest: checked at every step
    dS = 10 if quick else 14
    nS = 300 if quick else 3000
    pfxS = ["ex", "dn", "", "ex_1", "foo", "prov"]
    S = tlcrun.run_mc("C03/S", "MC_C03", cfg(dS, pfxS, "walk", walk=dS), workers=1, timeout=1200,
                      simulate="num=%d" % nS, seed=seed + 1, heap="4g")
    walks = tlcrun.pick_walks(S["tr"], seed)
    behaviours += [(h, 1) for h in walks]
    R = pipeline.replay_and_validate("C03/C", "docbun", behaviours)
    ops = {}
    for h, f in behaviours:
        ops[h[-1]["op"]] = ops.get(h[-1]["op"], 0) + 1
    for c in ("C03a", "C03b", "C03c"):
        if R["nonvacuous"].get(c, 0) == 0:
            raise MachineryError("clause %s was never exercised (vacuous run)" % c)
    ev = {
        "level": "model_checking",
        "coverage": {
            "states": A["distinct"], "transitions": A["generated"],
            "traces_validated_against_impl": R["traces"],
            "steps_validated": R["steps"],
            "exhaustive": True,
            "bounds": {"A_calls": dA, "B_calls": dB, "prefixes": pfx, "B_prefixes": pfxB, "ns_uris": 3, "locals": 2,
                       "scopes": ["doc", "bun"], "walk_len": dS, "walks": len(walks),
                       "walk_prefixes": pfxS},
            "B_transitions_replayed": len(B["tr"]),
            "last_op_counts": ops,
            "clause_nonvacuous_traces": R["nonvacuous"],
            "samples": [{"hist": R["sample"]["hist"], "last_step": R["sample"]["steps"][-1]}],
            "timing": {"A_s": A["wall_s"], "B_s": B["wall_s"], "drive_s": R["t_drive"],
                       "trace_s": R["t_trace"], "S_s": S["wall_s"]},
        },
        "assumptions": ["TLC; harness/project.py + vocab.py (projection through the public API)",
                        "C03 discipline: a scope's default namespace is never re-bound"],
    }
    return {"fails": R["fails"], "init": "docbun", "evidence": ev}


def replay(path):
    r = json.load(open(path))
    R = pipeline.replay_and_validate("C03/replay", r["init"], [(r["hist"], r.get("from", 1), r.get("tid", 1))], shards=1, seed=r.get("seed", 0))
    print(json.dumps(R["sample"]["steps"][-1], indent=1)[:3000])
    return {"fails": R["fails"], "init": r["init"], "evidence": None}
