"""C14 — graph conversion mirrors the document and converts back to its unified
form.  MC_Ser mode "graph": bundle-free documents of up to 3-4 records from a
menu of declared/undeclared endpoints, repeated identifiers, parallel
relations, self-loops and relations lacking an endpoint; prov_to_graph and
graph_to_prov logged; GraphOf written in TLA+ from the statement."""
import tlcrun
from tlcrun import MachineryError
import pipeline
from props import _ser

CLAUSES = ["C14_nodes", "C14_edges", "C14_back", "C14_noexc"]


def run(tier, seed):
    quick = tier != "thorough"
    depth = 3 if quick else 4
    A = tlcrun.run_mc("C14/A", "MC_Ser", _ser.cfg("graph", depth, "Graph", ["graph"], ["plain"], "min", ["entity"]),
                      workers=16, timeout=3000, heap="16g")
    if A["errors"] or not A["complete"]:
        raise MachineryError("model run (A) of MC_Ser did not pass: %s" % A["errors"][:3])
    B = tlcrun.run_mc("C14/B", "MC_Ser", _ser.cfg("graph", depth, "Graph", ["graph"], ["plain"], "min", ["entity"], emit="final"),
                      workers=1, timeout=3000, heap="8g")
    if B["errors"] or not B["complete"]:
        raise MachineryError("behaviour generation (B) failed: %s" % B["errors"][:3])
    behaviours = [(h, len(h)) for h in B["tr"]]
    R = pipeline.replay_and_validate("C14/C", "empty", behaviours, seed=seed)
    for c in CLAUSES:
        if R["nonvacuous"].get(c, 0) == 0:
            raise MachineryError("clause %s was never exercised (vacuous run)" % c)
    ev = {"level": "model_checking",
          "coverage": {"states": A["distinct"], "transitions": A["generated"],
                       "traces_validated_against_impl": R["traces"], "steps_validated": R["steps"],
                       "exhaustive": True,
                       "bounds": {"records_per_document": depth, "menu": 16},
                       "clause_nonvacuous_traces": R["nonvacuous"],
                       "samples": [{"hist": R["sample"]["hist"][2:], "res": R["sample"]["steps"][-1]["res"]}],
                       "timing": {"A_s": A["wall_s"], "B_s": B["wall_s"], "drive_s": R["t_drive"], "trace_s": R["t_trace"]}},
          "assumptions": ["graph nodes and edges are read through networkx's public API"]}
    return {"fails": R["fails"], "init": "empty", "evidence": ev}


def replay(path):
    return _ser.replay("C14", path)
