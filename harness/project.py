"""Strict projection of live prov objects through the public API only
(DESIGN 2.1).  This is the only way the library's state enters a trace."""
from vocab import uri_segs, local_segs


def proj_ns(container):
    reg = sorted(
        [[ns.prefix, uri_segs(ns.uri)] for ns in container.namespaces],
        key=lambda e: (e[0], e[1]),
    )
    d = container.get_default_namespace()
    return {"reg": reg, "dflt": uri_segs(d.uri) if d is not None else []}


def proj_qn(q):
    """A QualifiedName the library returned -> [ok,p,ns,l] (NoQN for None)."""
    if q is None:
        return {"ok": False, "p": "", "ns": [], "l": []}
    ns = q.namespace
    return {
        "ok": True,
        "p": ns.prefix or "",
        "ns": uri_segs(ns.uri),
        "l": local_segs(q.localpart),
    }


def printed_form(q):
    """How the name prints (str(q)), parsed back into the spec's string forms."""
    s = str(q)
    if q.namespace.prefix:
        p, l = s.split(":", 1)
        return {"k": "pl", "p": p, "l": local_segs(l)}
    return {"k": "bare", "l": local_segs(s)}
