"""Strict projection of live prov objects through the public API only
(DESIGN 2.1).  This is the only way the library's state enters a trace."""
import datetime
import json

from prov.identifier import Identifier, QualifiedName
from prov.model import Literal
from prov.constants import PROV_N_MAP

from vocab import uri_segs, local_segs

KIND_OF = {
    "entity": "entity", "activity": "activity", "agent": "agent",
    "wasGeneratedBy": "generation", "used": "usage", "wasInformedBy": "communication",
    "wasStartedBy": "start", "wasEndedBy": "end", "wasInvalidatedBy": "invalidation",
    "wasDerivedFrom": "derivation", "wasAttributedTo": "attribution",
    "wasAssociatedWith": "association", "actedOnBehalfOf": "delegation",
    "wasInfluencedBy": "influence", "specializationOf": "specialization",
    "alternateOf": "alternate", "mentionOf": "mention", "hadMember": "membership",
}


def proj_ns(container):
    reg = sorted(
        [[ns.prefix, uri_segs(ns.uri)] for ns in container.namespaces],
        key=lambda e: (e[0], e[1]),
    )
    d = container.get_default_namespace()
    return {"reg": reg, "dflt": uri_segs(d.uri) if d is not None else []}


def proj_qn(q):
    """A QualifiedName the library returned -> [ok,p,ns,l] (NoQN for None)."""
    if q is None:
        return {"ok": False, "p": "", "ns": [], "l": []}
    ns = q.namespace
    return {
        "ok": True,
        "p": ns.prefix or "",
        "ns": uri_segs(ns.uri),
        "l": local_segs(q.localpart),
    }


def printed_form(q):
    """How the name prints (str(q)), parsed back into the spec's string forms."""
    s = str(q)
    if q.namespace.prefix:
        p, l = s.split(":", 1)
        return {"k": "pl", "p": p, "l": local_segs(l)}
    return {"k": "bare", "l": local_segs(s)}


def proj_value(v, voc):
    """Concrete attribute value -> value token (kind aware, URI level)."""
    if isinstance(v, bool):
        return {"t": "bool", "v": voc.token("bool", v)}
    if isinstance(v, int):
        return {"t": "int", "v": voc.token("int", v)}
    if isinstance(v, float):
        return {"t": "float", "v": voc.token("float", v)}
    if isinstance(v, datetime.datetime):
        return {"t": "dt", "v": voc.token("dt", v)}
    if isinstance(v, str):
        it = voc.iso_token(v)
        if it is not None:
            return {"t": "isostr", "v": it}
        return {"t": "str", "v": voc.token("str", v)}
    if isinstance(v, QualifiedName):
        return {"t": "qn", "u": uri_segs(v.uri)}
    if isinstance(v, Identifier):
        return {"t": "uri", "u": uri_segs(v.uri)}
    if isinstance(v, Literal):
        if v.langtag is not None:
            return {"t": "lang", "v": voc.token("str", v.value), "lang": v.langtag}
        dt = v.datatype
        return {"t": "lit", "v": voc.token("str", v.value),
                "dt": uri_segs(dt.uri) if isinstance(dt, Identifier) else ["?" + repr(dt)]}
    return {"t": "?" + type(v).__name__, "v": "?" + repr(v)}


def _sortkey(x):
    return json.dumps(x, sort_keys=True)


def proj_record(r, voc):
    ident = r.identifier
    attrs = [{"a": uri_segs(a.uri), "v": proj_value(v, voc)} for (a, v) in r.attributes]
    attrs.sort(key=_sortkey)
    return {"k": KIND_OF.get(PROV_N_MAP.get(r.get_type()), "?" + str(r.get_type())),
            "id": uri_segs(ident.uri) if ident is not None else [],
            "attrs": attrs}


def proj_container(c, voc):
    return {"recs": [proj_record(r, voc) for r in c.get_records()]}
