"""C11: texts the library's own writers never produce.

(1) a specification-driven generator: renders the strict projection of a
    document as PROV-JSON / PROV-XML under a set of spelling flags chosen by
    TLC (single values wrapped in arrays, record arrays, every literal
    spelling, bundle-level prefix blocks, subtype XML elements, xsi:type on
    elements ...); it shares no code with prov.serializers.
(2) single-point mutations of the ProvToolbox corpus files shipped with the
    tests.
For every text: load -> d ; write(d) -> load -> d2 (same format) ; cross format
-> d3.  All projections are logged for TLC."""
import glob
import io
import json
import os
import random
import xml.sax.saxutils as sx

from prov.model import ProvDocument
import prov

from roundtrip import proj_doc
from vocab import uri_text, local_text, HEADS

PFX = [("ex", ["a"]), ("exb", ["a", "b"]), ("c", ["c"]), ("d", ["d"])]
BUILTIN = {"prov": ["prov#"], "xsd": ["xsd#"]}
JKEY = {"entity": "entity", "activity": "activity", "agent": "agent", "generation": "wasGeneratedBy",
        "usage": "used", "communication": "wasInformedBy", "start": "wasStartedBy", "end": "wasEndedBy",
        "invalidation": "wasInvalidatedBy", "derivation": "wasDerivedFrom", "attribution": "wasAttributedTo",
        "association": "wasAssociatedWith", "delegation": "actedOnBehalfOf", "influence": "wasInfluencedBy",
        "specialization": "specializationOf", "alternate": "alternateOf", "mention": "mentionOf",
        "membership": "hadMember"}
REF = {"entity", "activity", "agent", "plan", "trigger", "starter", "ender", "informed", "informant",
       "generatedEntity", "usedEntity", "generation", "usage", "delegate", "responsible", "influencee",
       "influencer", "specificEntity", "generalEntity", "alternate1", "alternate2", "collection", "bundle"}
TIME = {"time", "startTime", "endTime"}
XFORMALS = {"entity": [], "agent": [], "activity": ["startTime", "endTime"],
            "generation": ["entity", "activity", "time"], "usage": ["activity", "entity", "time"],
            "communication": ["informed", "informant"], "start": ["activity", "trigger", "starter", "time"],
            "end": ["activity", "trigger", "ender", "time"], "invalidation": ["entity", "activity", "time"],
            "derivation": ["generatedEntity", "usedEntity", "activity", "generation", "usage"],
            "attribution": ["entity", "agent"], "association": ["activity", "agent", "plan"],
            "delegation": ["delegate", "responsible", "activity"], "influence": ["influencee", "influencer"],
            "specialization": ["specificEntity", "generalEntity"], "alternate": ["alternate1", "alternate2"],
            "mention": ["specificEntity", "generalEntity", "bundle"], "membership": ["collection", "entity"]}
XSUB = {"Person": ("agent", "person"), "Organization": ("agent", "organization"),
        "SoftwareAgent": ("agent", "softwareAgent"), "Plan": ("entity", "plan"),
        "Collection": ("entity", "collection"), "Revision": ("derivation", "wasRevisionOf"),
        "Quotation": ("derivation", "wasQuotedFrom"), "PrimarySource": ("derivation", "hadPrimarySource")}


# flag brebind: inside a bundle the prefixes ex and c change places (the bundle declares them the other
# way round than the document does), so one spelling means different URIs at the two levels
SCOPE = {"swap": False}
_SWAPPED = {"ex": "c", "c": "ex"}


def scoped_pfx():
    if SCOPE["swap"]:
        return [(_SWAPPED.get(p, p), ns) for p, ns in PFX]
    return PFX


def qname(segs):
    """URI segments -> 'prefix:local' under the generator's own prefix table (longest namespace)."""
    best = None
    for p, ns in scoped_pfx() + list(BUILTIN.items()):
        if segs[:len(ns)] == ns and len(segs) > len(ns):
            if best is None or len(ns) > len(best[1]):
                best = (p, ns)
    if best is None:
        raise ValueError("no prefix for %r" % (segs,))
    return "%s:%s" % (best[0], local_text(segs[len(best[1]):]))


def concrete(v, voc):
    t = v["t"]
    if t in ("str", "int", "float", "bool", "dt"):
        return voc.value(t, v["v"])
    raise ValueError(v)


# ---------------------------------------------------------------- PROV-JSON
def json_value(v, fl, voc):
    t = v["t"]
    if t == "str":
        s = voc.value("str", v["v"])
        return {"$": s, "type": "xsd:string"} if fl.get("str") == "typed" else s
    if t == "int":
        n = voc.value("int", v["v"])
        sp = fl.get("int", "bare")
        if sp == "bare" and -2 ** 31 <= n < 2 ** 31:
            return n
        if sp == "typedstr":
            return {"$": str(n), "type": "xsd:int"}
        if sp == "long":
            return {"$": str(n), "type": "xsd:long"}
        return {"$": n, "type": "xsd:int"}
    if t == "float":
        x = voc.value("float", v["v"])
        if fl.get("float") == "intnum" and x == int(x) and abs(x) < 2 ** 53:
            return {"$": int(x), "type": "xsd:double"}      # a JSON number without fraction, typed double
        return {"$": repr(x), "type": "xsd:double"} if fl.get("float") == "typedstr" else {"$": x, "type": "xsd:double"}
    if t == "bool":
        b = voc.value("bool", v["v"])
        sp = fl.get("bool", "bare")
        if sp == "typed":
            return {"$": b, "type": "xsd:boolean"}
        if sp == "typedstr":
            return {"$": "true" if b else "false", "type": "xsd:boolean"}
        if sp == "typednum":
            return {"$": 1 if b else 0, "type": "xsd:boolean"}
        return b
    if t == "dt":
        return {"$": voc.value("dt", v["v"]).isoformat(), "type": "xsd:dateTime"}
    if t == "uri":
        return {"$": uri_text(v["u"]), "type": "xsd:anyURI"}
    if t == "qn":
        return {"$": qname(v["u"]), "type": "xsd:QName" if fl.get("qn") == "QName" else "prov:QUALIFIED_NAME"}
    if t == "lang":
        return {"$": voc.value("str", v["v"]), "lang": v["lang"]}
    if t == "lit":
        return {"$": voc.value("str", v["v"]), "type": qname(v["dt"])}
    raise ValueError(v)


def merge_memberships(recs):
    """Several anonymous, attribute-less hadMember records of one collection as ONE record
    listing the entities (a spelling the PROV-JSON submission allows)."""
    out, done = [], set()
    for i, r in enumerate(recs):
        if i in done:
            continue
        plain = r["k"] == "membership" and not r["id"] and len(r["attrs"]) == 2
        if plain:
            coll = [a for a in r["attrs"] if a["a"] == ["prov#", "collection"]]
            same = [j for j in range(i + 1, len(recs)) if j not in done and recs[j]["k"] == "membership"
                    and not recs[j]["id"] and len(recs[j]["attrs"]) == 2
                    and [a for a in recs[j]["attrs"] if a["a"] == ["prov#", "collection"]] == coll]
            if coll and same:
                ents = [a for a in r["attrs"] if a["a"] == ["prov#", "entity"]]
                for j in same:
                    ents += [a for a in recs[j]["attrs"] if a["a"] == ["prov#", "entity"]]
                    done.add(j)
                out.append({"k": "membership", "id": [], "attrs": ents + coll})   # entities first
                continue
        out.append(r)
    return out


def json_container(recs, fl, voc, prefixes):
    c = {}
    if prefixes:
        c["prefix"] = dict((p, uri_text(ns)) for p, ns in scoped_pfx())
    anon = 0
    if fl.get("member"):
        recs = merge_memberships(recs)
    for r in recs:
        body = {}
        byattr = {}
        for a in r["attrs"]:
            byattr.setdefault(tuple(a["a"]), []).append(a["v"])
        for au, vals in byattr.items():
            key = qname(list(au))
            if au[0] == "prov#" and au[1] in REF:
                out = [qname(v["u"]) for v in vals]
            elif au[0] == "prov#" and au[1] in TIME:
                out = [voc.value("dt", v["v"]).isoformat() for v in vals]
            else:
                out = [json_value(v, fl, voc) for v in vals]
            if len(out) == 1 and not fl.get("arr1"):
                body[key] = out[0]
            else:
                body[key] = out
        if fl.get("bodykeys") == "reversed":
            body = dict(reversed(list(body.items())))
        if r["id"]:
            rid = qname(r["id"])
        else:
            anon += 1
            rid = "_:n%d" % anon
        kind = c.setdefault(JKEY[r["k"]], {})
        if rid in kind:
            if not isinstance(kind[rid], list):
                kind[rid] = [kind[rid]]
            kind[rid].append(body)
        else:
            kind[rid] = [body] if fl.get("recarr") else body
    return c


def render_json(src, fl, voc):
    top = json_container(src["recs"], fl, voc, True)
    if src["bundles"]:
        top["bundle"] = {}
        for b in src["bundles"]:
            SCOPE["swap"] = bool(fl.get("brebind"))
            try:
                top["bundle"][qname(b["id"])] = json_container(b["recs"], fl, voc,
                                                               bool(fl.get("bprefix")) or SCOPE["swap"])
            finally:
                SCOPE["swap"] = False
    if fl.get("keys") == "reversed":
        top = dict(reversed(list(top.items())))
    text = json.dumps(top, indent=1 if fl.get("indent") else None)
    if fl.get("xsdp") == "xs":
        # the XML Schema datatypes under a declared prefix of the author's choice
        top.setdefault("prefix", {})["xs"] = "http://www.w3.org/2001/XMLSchema#"
        text = json.dumps(top, indent=1 if fl.get("indent") else None).replace('"xsd:', '"xs:')
    return text


# ---------------------------------------------------------------- PROV-XML
def xml_value(tag, v, fl, voc):
    t = v["t"]
    esc = sx.escape

    def el(text, attrs=""):
        return "<%s%s>%s</%s>" % (tag, attrs, esc(text), tag)
    if t == "str":
        s = voc.value("str", v["v"])
        return el(s, ' xsi:type="xsd:string"' if fl.get("str") == "typed" else "")
    if t == "int":
        n = voc.value("int", v["v"])
        return el(str(n), ' xsi:type="xsd:%s"' % ("long" if fl.get("int") == "long" else "int"))
    if t == "float":
        return el(repr(voc.value("float", v["v"])), ' xsi:type="xsd:double"')
    if t == "bool":
        b = voc.value("bool", v["v"])
        return el(("1" if b else "0") if fl.get("bool") == "typedstr" else ("true" if b else "false"),
                  ' xsi:type="xsd:boolean"')
    if t == "dt":
        return el(voc.value("dt", v["v"]).isoformat(), ' xsi:type="xsd:dateTime"')
    if t == "uri":
        return el(uri_text(v["u"]), ' xsi:type="xsd:anyURI"')
    if t == "qn":
        return el(qname(v["u"]), ' xsi:type="xsd:QName"')
    if t == "lang":
        return el(voc.value("str", v["v"]), ' xml:lang="%s"' % v["lang"])
    if t == "lit":
        return el(voc.value("str", v["v"]), ' xsi:type="%s"' % qname(v["dt"]))
    raise ValueError(v)


def xml_record(r, fl, voc):
    attrs = list(r["attrs"])
    name = JKEY[r["k"]]
    if fl.get("subtype"):
        for a in attrs:
            if a["a"] == ["prov#", "type"] and a["v"]["t"] == "qn" and a["v"]["u"][0] == "prov#" \
                    and a["v"]["u"][1] in XSUB and XSUB[a["v"]["u"][1]][0] == r["k"]:
                name = XSUB[a["v"]["u"][1]][1]
                attrs.remove(a)
                break
    eltype = ""
    if fl.get("eltype"):
        # one (non-subtype) prov:type qualified name as xsi:type on the record element itself
        for a in attrs:
            if a["a"] == ["prov#", "type"] and a["v"]["t"] == "qn" and a["v"]["u"][0] != "prov#":
                eltype = ' xsi:type="%s"' % qname(a["v"]["u"])
                attrs.remove(a)
                break
    out = ["<prov:%s%s%s>" % (name, ' prov:id="%s"' % qname(r["id"]) if r["id"] else "", eltype)]

    def rank(a):
        au = a["a"]
        if au[0] == "prov#":
            if au[1] in XFORMALS[r["k"]]:
                return (XFORMALS[r["k"]].index(au[1]), "")
            if au[1] in ("label", "location", "role", "type", "value"):
                return (10 + ["label", "location", "role", "type", "value"].index(au[1]), "")
        return (20, qname(au))
    for a in sorted(attrs, key=rank):
        au = a["a"]
        tag = qname(au)
        if fl.get("localns") and au[0] != "prov#":
            # the attribute element declares its own namespace: under a fresh prefix, or by
            # re-binding a prefix that is bound to another namespace on the root element
            p, l = tag.split(":", 1)
            probe = xml_value("zz:zz", a["v"], fl, voc)
            cands = ["loc"] if fl["localns"] == "new" else \
                [x for x in ("c", "d", "exb", "ex") if x != p and (x + ":") not in probe]
            lp = (cands or ["loc"])[0]
            ns = [x for x in scoped_pfx() if x[0] == p][0][1]
            el = xml_value("%s:%s" % (lp, l), a["v"], fl, voc)
            out.append(el.replace("<%s:%s" % (lp, l), '<%s:%s xmlns:%s="%s"' % (lp, l, lp, uri_text(ns)), 1))
            continue
        if au[0] == "prov#" and au[1] in REF:
            out.append('<%s prov:ref="%s"/>' % (tag, qname(a["v"]["u"])))
        elif au[0] == "prov#" and au[1] in TIME:
            # the schema types these elements xsd:dateTime; saying so explicitly is redundant but valid
            ty = ' xsi:type="xsd:dateTime"' if fl.get("timetype") else ""
            out.append("<%s%s>%s</%s>" % (tag, ty, voc.value("dt", a["v"]["v"]).isoformat(), tag))
        elif au == ["prov#", "label"] and a["v"]["t"] == "str":
            out.append("<%s>%s</%s>" % (tag, sx.escape(voc.value("str", a["v"]["v"])), tag))
        else:
            out.append(xml_value(tag, a["v"], fl, voc))
    out.append("</prov:%s>" % name)
    return "".join(out)


def render_xml(src, fl, voc):
    decl = " ".join('xmlns:%s="%s"' % (p, uri_text(ns)) for p, ns in PFX)
    head = ('<prov:document xmlns:prov="http://www.w3.org/ns/prov#" '
            'xmlns:xsd="http://www.w3.org/2001/XMLSchema" '
            'xmlns:xsi="http://www.w3.org/2001/XMLSchema-instance" %s>' % decl)
    parts = [head]
    if fl.get("comment"):
        parts.append("<!-- a comment -->")
    parts += [xml_record(r, fl, voc) for r in src["recs"]]
    for b in src["bundles"]:
        SCOPE["swap"] = bool(fl.get("brebind"))
        try:
            bdecl = (" " + " ".join('xmlns:%s="%s"' % (p, uri_text(ns)) for p, ns in scoped_pfx())) \
                if (fl.get("bprefix") or SCOPE["swap"]) else ""
            belems = ['<prov:bundleContent prov:id="%s"%s>' % (qname(b["id"]), bdecl)]
            belems += [xml_record(r, fl, voc) for r in b["recs"]]
            belems.append("</prov:bundleContent>")
        finally:
            SCOPE["swap"] = False
        # flag bundlefirst: the bundles precede the document-level records
        if fl.get("bundlefirst"):
            parts[1:1] = belems
        else:
            parts += belems
    parts.append("</prov:document>")
    sep = "\n  " if fl.get("indent") else ""
    text = '<?xml version="1.0" encoding="UTF-8"?>\n' + sep.join(parts)
    if fl.get("xsdp") == "xs":
        # the XML Schema namespace bound to another prefix (what counts is the URI)
        text = text.replace('xmlns:xsd=', 'xmlns:xs=').replace('="xsd:', '="xs:')
    return text


# ---------------------------------------------------------------- the experiment
def load(text, fmt):
    return ProvDocument.deserialize(content=text, format=fmt)


def stability(text, fmt, voc, xml_ok=True):
    """load -> d ; write(d) -> load -> d2 ; other format -> d3.  Returns projections / error classes."""
    empty = {"recs": [], "bundles": [], "ns": {"reg": [], "dflt": []}}
    res = {"exc": "none", "d": empty, "d2": empty, "d3": empty, "cross": "none"}
    try:
        d = load(text, fmt)
    except Exception as e:
        res["exc"] = ("Error:" if isinstance(e, prov.Error) else "ValueError:" if isinstance(e, ValueError)
                      else "other:") + type(e).__name__
        return res
    res["d"] = proj_doc(d, voc)
    try:
        res["d2"] = proj_doc(load(d.serialize(format=fmt), fmt), voc)
    except Exception as e:
        res["exc"] = "rewrite:" + type(e).__name__
        return res
    other = "xml" if fmt == "json" else "json"
    if other == "json" or xml_ok:
        try:
            res["d3"] = proj_doc(load(d.serialize(format=other), other), voc)
            res["cross"] = "done"
        except Exception as e:
            res["cross"] = "error:" + type(e).__name__
    return res


# ---------------------------------------------------------------- corpus mutations
def corpus_files(fmt):
    here = os.path.dirname(prov.__file__)
    return sorted(glob.glob(os.path.join(here, "tests", fmt, "*." + fmt)))


def mutate_json(text, kind, rng):
    """Content-preserving single-point mutations of a PROV-JSON text."""
    j = json.loads(text)
    if kind == "reorder":
        def rev(x):
            if isinstance(x, dict):
                return dict((k, rev(v)) for k, v in reversed(list(x.items())))
            return x
        return json.dumps(rev(j))
    if kind == "wrap":          # wrap one single non-formal value into a one-element array
        for kname, recs in j.items():
            if kname in ("prefix", "bundle"):
                continue
            for rid, body in recs.items():
                bodies = body if isinstance(body, list) else [body]
                for b in bodies:
                    for a, v in b.items():
                        if not isinstance(v, list) and not a.startswith("prov:"):
                            b[a] = [v]
                            return json.dumps(j)
        return None
    if kind == "recarr":        # record object -> one-element record array
        for kname, recs in j.items():
            if kname in ("prefix", "bundle"):
                continue
            for rid, body in recs.items():
                if isinstance(body, dict):
                    recs[rid] = [body]
                    return json.dumps(j)
        return None
    if kind == "rename":        # rename one prefix consistently (text level, keys and values)
        pf = [p for p in j.get("prefix", {}) if p != "default"]
        if not pf:
            return None
        p = pf[0]
        q = p + "zz"
        if any(q == x for x in j.get("prefix", {})):
            return None
        return json.dumps(json.loads(json.dumps(j).replace('"%s:' % p, '"%s:' % q).replace('"%s"' % p, '"%s"' % q)))
    if kind == "tobundle":      # copy the document's prefix block into every bundle that has none
        if "bundle" not in j or "prefix" not in j:
            return None
        done = False
        for bid, b in j["bundle"].items():
            if "prefix" not in b:
                b["prefix"] = dict(j["prefix"])
                done = True
        return json.dumps(j) if done else None
    raise ValueError(kind)
