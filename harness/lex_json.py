"""PROV-JSON text -> abstract syntax for TLC (DESIGN 2.1).  Decides lexical
questions only: JSON well-formedness (stdlib json, independent of the library)
and the mapping of scalars to vocabulary tokens.  Every node is a uniformly
shaped record so that TLC never compares values of different shapes:

  str : {"j":"str", "v": string token or "?repr", "raw": the text itself when it is a short
         plain ASCII word (keys, keywords) else "", "qn": [] | [{"p","l"}],
         "uri": [] | segs, "iso": dt token or "", "int": int token or "",
         "flt": float token or "", "bool": "0"|"1"|""}
  num : {"j":"num", "v": token, "isint": bool}      bool: {"j":"bool","v":"0"|"1"}
  null: {"j":"null"}
  obj : {"j":"obj", "items": [[key str-node, value node], ...]}   (document order)
  arr : {"j":"arr", "items": [node, ...]}
"""
import json

from vocab import uri_segs, local_segs, HEADS


def _is_vocab_uri(s):
    return any(s.startswith(t) for t in HEADS.values())


def str_node(s, voc):
    raw = s if (len(s) <= 40 and all(32 < ord(c) < 127 and c not in '"\\' for c in s)) else ""
    n = {"j": "str", "v": voc.token("str", s), "raw": raw, "qn": [], "uri": [], "iso": "", "int": "", "flt": "",
         "bool": {"true": "1", "1": "1", "false": "0", "0": "0"}.get(s, "")}
    if ":" in s and not _is_vocab_uri(s):
        p, l = s.split(":", 1)
        if p == "_" or (p.replace("_", "").replace("-", "").isalnum()):
            n["qn"] = [{"p": p, "l": local_segs(l)}]
    elif ":" not in s and s:
        n["qn"] = [{"p": "", "l": local_segs(s)}]
    if _is_vocab_uri(s):
        n["uri"] = uri_segs(s)
    it = voc.iso_token(s)
    if it is not None:
        n["iso"] = it
    try:
        n["int"] = _tok(voc.token("int", int(s)))
    except ValueError:
        pass
    try:
        n["flt"] = _tok(voc.token("float", float(s)))
    except ValueError:
        pass
    return n


def _tok(t):
    return "" if t.startswith("?") else t


def node(x, voc):
    if isinstance(x, str):
        return str_node(x, voc)
    if isinstance(x, bool):
        return {"j": "bool", "v": "1" if x else "0"}
    if isinstance(x, int):
        return {"j": "num", "v": voc.token("int", x), "isint": True}
    if isinstance(x, float):
        return {"j": "num", "v": voc.token("float", x), "isint": False}
    if x is None:
        return {"j": "null"}
    if isinstance(x, list):
        return {"j": "arr", "items": [node(i, voc) for i in x]}
    if isinstance(x, dict):
        return {"j": "obj", "items": [[str_node(k, voc), node(v, voc)] for k, v in x.items()]}
    raise ValueError(type(x))


class DuplicateKey(ValueError):
    pass


def lex(text, voc):
    def pairs(ps):
        seen = set()
        for k, _ in ps:
            if k in seen:
                raise DuplicateKey(k)
            seen.add(k)
        return dict(ps)
    return node(json.loads(text, object_pairs_hook=pairs), voc)
