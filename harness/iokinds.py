"""C16: every destination kind x source kind x explicit/detected format for one
document and format.  Returns equality bits and digests; judged by TLC."""
import hashlib
import io
import json
import os
import shutil
import tempfile

import prov
from prov.model import ProvDocument

from project import proj_container, proj_ns


def doc_digest(d, voc, setlike=False):
    """Digest of the strict projection (bags per container; for RDF: unified, sets)."""
    if d is None:
        return "none"
    if setlike:
        d = d.unified()

    def con(c):
        recs = [json.dumps(r, sort_keys=True) for r in proj_container(c, voc)["recs"]]
        recs = sorted(set(recs)) if setlike else sorted(recs)
        return recs
    body = {"recs": con(d),
            "bundles": sorted([[str(b.identifier.uri), con(b)] for b in d.bundles], key=lambda e: json.dumps(e))}
    if not body["recs"] and not body["bundles"]:
        return "empty"
    return hashlib.sha1(json.dumps(body, sort_keys=True).encode()).hexdigest()[:16]


def same_text(fmt, a, b):
    if a is None or b is None:
        return False
    if fmt == "xml":
        import xml.etree.ElementTree as ET
        try:
            return ET.canonicalize(a) == ET.canonicalize(b)
        except Exception:
            return False
    if fmt == "rdf":
        from rdflib import ConjunctiveGraph
        from rdflib.compare import isomorphic
        try:
            g1, g2 = ConjunctiveGraph(), ConjunctiveGraph()
            g1.parse(data=a, format="trig")
            g2.parse(data=b, format="trig")
            return isomorphic(g1, g2)
        except Exception:
            return False
    return a == b


def run_io(doc, fmt, voc):
    setlike = fmt == "rdf"
    src_digest = doc_digest(doc, voc, setlike)
    root = tempfile.mkdtemp(prefix="c16-")
    out = {"src": src_digest, "text": {}, "doc": {}, "read": {}}
    try:
        # ---- destinations ----
        texts = {}
        try:
            texts["string"] = doc.serialize(format=fmt)
        except Exception as e:
            texts["string"] = None
            out["text"]["string_exc"] = type(e).__name__
        for kind in ("text", "binary", "path", "pathover", "textfile", "ntf"):
            try:
                if kind == "ntf":
                    # a file object that is not an io.IOBase (tempfile's wrapper): a stream all the same
                    with tempfile.NamedTemporaryFile(dir=root) as fh:
                        doc.serialize(fh, format=fmt)
                        fh.flush()
                        fh.seek(0)
                        texts[kind] = fh.read().decode("utf-8")
                elif kind == "textfile":
                    # a file-backed TEXT stream whose encoding is not UTF-8: the stream encodes, the
                    # library writes text
                    p = os.path.join(root, "t16." + fmt)
                    with io.open(p, "w", encoding="utf-16", newline="") as fh:
                        doc.serialize(fh, format=fmt)
                    with io.open(p, "r", encoding="utf-16", newline="") as fh:
                        texts[kind] = fh.read()
                elif kind == "pathover":
                    # the named file already exists and is LONGER than what is written now
                    p = os.path.join(root, "over." + fmt)
                    with io.open(p, "wb") as fh:
                        fh.write(b"previous, longer content of the file\n" * 4000)
                    doc.serialize(p, format=fmt)
                    with io.open(p, "rb") as fh:
                        texts[kind] = fh.read().decode("utf-8")
                elif kind == "text":
                    s = io.StringIO()
                    doc.serialize(s, format=fmt)
                    texts[kind] = s.getvalue()
                elif kind == "binary":
                    s = io.BytesIO()
                    doc.serialize(s, format=fmt)
                    texts[kind] = s.getvalue().decode("utf-8")
                else:
                    p = os.path.join(root, "out." + fmt)
                    doc.serialize(p, format=fmt)
                    with io.open(p, "rb") as fh:
                        texts[kind] = fh.read().decode("utf-8")
            except Exception as e:
                texts[kind] = None
        for kind in ("text", "binary", "path", "pathover", "textfile", "ntf"):
            out["text"][kind] = same_text(fmt, texts.get("string"), texts.get(kind))
        if fmt == "provn":
            return out
        # ---- sources ----
        text = texts.get("string") or ""
        data = text.encode("utf-8")
        path = os.path.join(root, "in." + fmt)
        with io.open(path, "wb") as fh:
            fh.write(data)

        # a local file name with URL syntax in it, and the text file written above through its own stream
        hpath = os.path.join(root, "in#1;v=2." + fmt)
        with io.open(hpath, "wb") as fh:
            fh.write(data)
        tpath = os.path.join(root, "t16." + fmt)
        opened = []

        def sources():
            t16 = io.open(tpath, "r", encoding="utf-16", newline="")
            opened.append(t16)
            ntf = tempfile.NamedTemporaryFile(dir=root)
            ntf.write(data)
            ntf.flush()
            ntf.seek(0)
            opened.append(ntf)
            return {"content_str": dict(content=text), "content_bytes": dict(content=data),
                    "text": dict(source=io.StringIO(text)), "binary": dict(source=io.BytesIO(data)),
                    "path": dict(source=path), "pathurl": dict(source=hpath), "textfile": dict(source=t16),
                    "ntf": dict(source=ntf),
                    # what a BINARY destination received (for XML: UTF-8 with the characters themselves,
                    # where the returned string has character references), offered as text and as bytes
                    "bintext": dict(source=io.StringIO(texts.get("binary") or text)),
                    "bincontent": dict(content=(texts.get("binary") or text).encode("utf-8"))}
        for kind, kw in sources().items():
            try:
                out["doc"][kind] = doc_digest(ProvDocument.deserialize(format=fmt, **kw), voc, setlike)
            except Exception as e:
                out["doc"][kind] = "error:" + type(e).__name__
        # prov.read(path) without a format does not trust the file name: the same bytes under the
        # extension of another format, and under no extension
        wrong = {"json": "xml", "xml": "json", "rdf": "json"}[fmt]
        for key, fname in (("pathwrong", "export." + fmt + "." + wrong), ("pathnoext", "export")):
            pth = os.path.join(root, fname)
            with io.open(pth, "wb") as fh:
                fh.write(data)
            try:
                out["read"][key + "_detect"] = doc_digest(prov.read(pth), voc, setlike)
            except Exception as e:
                out["read"][key + "_detect"] = "error:" + type(e).__name__
        for kind in ("text", "binary", "path", "pathurl"):
            for how in ("explicit", "detect"):
                kw = sources()[kind]
                try:
                    d = prov.read(kw["source"], format=fmt) if how == "explicit" else prov.read(kw["source"])
                    out["read"][kind + "_" + how] = doc_digest(d, voc, setlike)
                except Exception as e:
                    out["read"][kind + "_" + how] = "error:" + type(e).__name__
        for f in opened:
            try:
                f.close()
            except Exception:
                pass
        return out
    finally:
        shutil.rmtree(root, ignore_errors=True)
