"""Running TLC: model checking runs (A)/(B) and trace-validation shards (C)."""
import json
import os
import re
import shutil
import subprocess
import time

VERIF = os.path.dirname(os.path.dirname(os.path.abspath(__file__)))
SPEC = os.path.join(VERIF, "spec")
OUT = os.environ.get("VERIF_OUT") or os.path.join(VERIF, "out")   # VERIF_OUT: scratch runs (seeded changes)
JAR = "/opt/veriftools/tla/tla2tools.jar:/opt/veriftools/tla/CommunityModules-deps.jar"


class MachineryError(Exception):
    pass


# bounded-memory sampling that happened in this run (reported in the evidence; "exhaustive" is then false)
SAMPLING = []


def _java(args, env=None, timeout=None, heap="4g", to_file=None):
    cmd = ["java", "-XX:+UseParallelGC", "-Xss128m", "-Xmx" + heap, "-cp", JAR, "tlc2.TLC"] + args
    e = dict(os.environ)
    if env:
        e.update(env)
    t0 = time.time()
    if to_file:
        # large outputs (one line per explored transition) go to a file and are read as a stream
        with open(to_file, "wb") as fh:
            try:
                p = subprocess.run(cmd, cwd=SPEC, env=e, stdout=fh, stderr=subprocess.STDOUT, timeout=timeout)
            except subprocess.TimeoutExpired as ex:
                raise MachineryError("TLC timeout after %ss: %s" % (timeout, " ".join(args)))
        return p.returncode, None, time.time() - t0
    try:
        p = subprocess.run(cmd, cwd=SPEC, env=e, stdout=subprocess.PIPE,
                           stderr=subprocess.STDOUT, timeout=timeout)
    except subprocess.TimeoutExpired as ex:
        raise MachineryError("TLC timeout after %ss: %s" % (timeout, " ".join(args)))
    return p.returncode, p.stdout.decode("utf-8", "replace"), time.time() - t0


def write_cfg(path, spec, constants, invariants=(), properties=(), view=None, constraint=None):
    lines = ["SPECIFICATION %s" % spec]
    if view:
        lines.append("VIEW %s" % view)
    if constants:
        lines.append("CONSTANTS")
        for k, v in constants.items():
            lines.append("  %s = %s" % (k, v))
    for i in invariants:
        lines.append("INVARIANT %s" % i)
    for p in properties:
        lines.append("PROPERTY %s" % p)
    if constraint:
        lines.append("CONSTRAINT %s" % constraint)
    lines.append("CHECK_DEADLOCK FALSE")
    with open(path, "w") as f:
        f.write("\n".join(lines) + "\n")


_RE_STATES = re.compile(r"^(\d+) states generated, (\d+) distinct states found, (\d+) states left")
_RE_ERR = re.compile(r"^Error: (.*)$")


def hash_tag(tag):
    import hashlib
    return int.from_bytes(hashlib.sha256(tag.encode()).digest()[:4], "big")


def tla_set(items):
    return "{" + ", ".join(json.dumps(i) for i in items) + "}"


def run_mc(tag, module, cfg, workers=16, timeout=1200, simulate=None, seed=None,
           coverage=False, heap="12g", keep_tr=True):
    """Run TLC on spec/<module>.tla with the config dict `cfg`
    (keys of write_cfg).  Returns a dict with counts, errors and TR lines."""
    os.makedirs(os.path.join(OUT, tag), exist_ok=True)
    cfg_path = os.path.join(OUT, tag, module + ".cfg")
    write_cfg(cfg_path, **cfg)
    meta = os.path.join(OUT, tag, "meta")
    shutil.rmtree(meta, ignore_errors=True)
    args = ["-workers", str(workers), "-metadir", meta, "-noGenerateSpecTE",
            "-config", cfg_path]
    if coverage:
        args += ["-coverage", "1"]
    if simulate:
        args += ["-simulate", simulate]
    if seed is not None:
        args += ["-seed", str(seed)]
    args.append(module + ".tla")
    outfile = os.path.join(OUT, tag, "tlc.out")
    for attempt in (1, 2, 3):
        rc, _none, wall = _java(args, timeout=timeout, heap=heap, to_file=outfile)
        shutil.rmtree(meta, ignore_errors=True)
        if rc in (0, 12, 13) or not _was_killed(outfile) or attempt == 3:
            break
        time.sleep(20 * attempt)      # killed from outside (memory pressure): wait and run it again
    res = {"rc": rc, "wall_s": round(wall, 2), "generated": 0, "distinct": 0,
           "errors": [], "tr": [], "complete": False, "raw_tail": "", "tr_total": 0}
    # TR lines beyond MAXTR are reservoir-sampled (seeded): a bounded, reproducible subset
    maxtr = int(os.environ.get("VERIF_MAXTR", "200000"))
    import random
    rng = random.Random(hash_tag(tag))
    kept = []
    tail = []
    fh = open(outfile, "r", encoding="utf-8", errors="replace")
    for line in fh:
        line = line.rstrip("\n")
        if line.startswith('"TR '):
            if keep_tr:
                res["tr_total"] += 1
                if len(kept) < maxtr:
                    kept.append(line)
                else:
                    j = rng.randrange(res["tr_total"])
                    if j < maxtr:
                        kept[j] = line
            continue
        tail.append(line)
        if len(tail) > 400:
            del tail[:200]
        m = _RE_STATES.match(line)
        if m:
            res["generated"], res["distinct"] = int(m.group(1)), int(m.group(2))
            continue
        m = _RE_ERR.match(line)
        if m:
            res["errors"].append(m.group(1))
        if line.startswith("Model checking completed. No error has been found."):
            res["complete"] = True
    fh.close()
    os.remove(outfile)
    out = "\n".join(tail)
    res["raw_tail"] = out[-3000:]
    if res["tr_total"] > len(kept):
        SAMPLING.append({"what": "transitions printed by TLC (%s)" % tag, "total": res["tr_total"], "kept": len(kept)})
    for line in kept:
        try:
            res["tr"].append(json.loads(json.loads(line)[3:]))
        except Exception:
            raise MachineryError("unparsable TR line: %r" % line[:200])
    if simulate:
        m = re.search(r"(\d+) states checked", out)
        res["complete"] = True if not res["errors"] else False
    return res


def _mem_available_gb():
    try:
        for line in open("/proc/meminfo"):
            if line.startswith("MemAvailable:"):
                return int(line.split()[1]) // (1024 * 1024)
    except OSError:
        pass
    return 64


def _was_killed(logpath):
    try:
        log = open(logpath, encoding="utf-8", errors="replace").read()
    except OSError:
        return True
    return "Model checking completed" not in log and "Error:" not in log


def run_trace_shards(tag, shard_files, timeout=1800, heap="3g", par=16):
    """Run Trace.tla once per shard file (separate single-worker JVMs, `par` at
    a time).  Returns (fails, dones, walls): FAIL and DONE lines parsed."""
    os.makedirs(os.path.join(OUT, tag), exist_ok=True)
    cfg_path = os.path.join(OUT, tag, "Trace.cfg")
    write_cfg(cfg_path, "TSpec", {})
    procs = []
    results = []
    pending = list(enumerate(shard_files))
    running = []
    t0 = time.time()
    # as many JVMs at a time as the free memory allows (each may grow to its heap limit)
    par = max(2, min(par, _mem_available_gb() // 4))
    retried = set()

    def launch(i, f):
        meta = os.path.join(OUT, tag, "tmeta%d" % i)
        shutil.rmtree(meta, ignore_errors=True)
        cmd = ["java", "-XX:+UseParallelGC", "-Xss128m", "-Xmx" + heap, "-cp", JAR, "tlc2.TLC",
               "-workers", "1", "-metadir", meta, "-noGenerateSpecTE",
               "-config", cfg_path, "Trace.tla"]
        e = dict(os.environ)
        e["TRACE_FILE"] = f
        logf = open(os.path.join(OUT, tag, "trace%d.log" % i), "wb")
        p = subprocess.Popen(cmd, cwd=SPEC, env=e, stdout=logf, stderr=subprocess.STDOUT)
        return (i, f, p, logf, meta)

    while pending or running:
        while pending and len(running) < par:
            i, f = pending.pop(0)
            running.append(launch(i, f))
        time.sleep(0.05)
        still = []
        for (i, f, p, logf, meta) in running:
            if p.poll() is None:
                if time.time() - t0 > timeout:
                    p.kill()
                    raise MachineryError("trace shard %d timed out" % i)
                still.append((i, f, p, logf, meta))
            else:
                logf.close()
                shutil.rmtree(meta, ignore_errors=True)
                if p.returncode not in (0, 12, 13) and i not in retried and _was_killed(os.path.join(OUT, tag, "trace%d.log" % i)):
                    # the JVM was killed from outside (memory pressure): once more, later, with fewer neighbours
                    retried.add(i)
                    par = max(1, par // 2)
                    pending.append((i, f))
                else:
                    results.append((i, p.returncode))
        running = still
    fails, dones = [], []
    for i, rc in results:
        log = open(os.path.join(OUT, tag, "trace%d.log" % i), encoding="utf-8", errors="replace").read()
        ok = "Model checking completed. No error has been found." in log
        if not ok:
            raise MachineryError("trace shard %d: TLC did not complete:\n%s" % (i, log[-2500:]))
        for line in log.splitlines():
            if line.startswith('"FAIL|'):
                _, tid, n, clause, kf = json.loads(line).split("|", 4)
                fails.append({"tid": int(tid), "step": int(n), "clause": clause, "kf": kf})
            elif line.startswith('"DONE|'):
                _, tid, n, nv = json.loads(line).split("|", 3)
                dones.append({"tid": int(tid), "n": int(n), "nv": json.loads(nv)})
    return fails, dones, time.time() - t0


def pick_walks(tr, seed):
    """TR lines of a simulation run with Emit="walk": consecutive lines sharing
    hist[:-1] are the alternative final steps of one random walk; keep one."""
    import random
    rng = random.Random(seed)
    out, group, key = [], [], None
    for h in tr:
        k = json.dumps(h[:-1], sort_keys=True)
        if k != key and group:
            out.append(rng.choice(group))
            group = []
        key = k
        group.append(h)
    if group:
        out.append(rng.choice(group))
    return out
