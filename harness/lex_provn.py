"""PROV-N text -> abstract syntax for TLC.  A tokenizer and recursive-descent
parser written from the W3C PROV-N grammar (REC-prov-n-20130430, section 3 and
the productions of section 3.7), independent of the library.  It decides
grammar membership at the level of the generic expression syntax (document /
bundle framing, declarations, name(optId; args, [attrs]), literals, escapes);
arity, argument positions and where '-' may stand are decided by SpecProvN.tla.

AST
  {"decls": {"dflt": segs|[], "pfx": [[prefix, segs], ...]},
   "exprs": [expr...], "bundles": [{"id": name, "decls": ..., "exprs": [...]}]}
  expr  {"name": str, "hasid": bool, "id": [] | [name] ("-" marker: []), "args": [arg...],
         "hasattrs": bool, "attrs": [[name, lit], ...]}
  name  {"p": prefix, "l": local segs}
  arg   {"a": "name", "qn": name} | {"a": "marker"} | {"a": "time", "iso": dt token or ""}
  lit   {"l": "str", "s": str-node, "dt": [] | [name], "lang": ""|tag} | {"l": "int", "v": int token}
        | {"l": "qn", "qn": name}
"""
import re

from lex_json import str_node
from vocab import uri_segs, local_segs


class ProvNSyntaxError(ValueError):
    pass


PN_CHARS_BASE = r"A-Za-z\u00C0-\u00D6\u00D8-\u00F6\u00F8-\u02FF\u0370-\u037D\u037F-\u1FFF\u200C-\u200D\u2070-\u218F\u2C00-\u2FEF\u3001-\uD7FF\uF900-\uFDCF\uFDF0-\uFFFD\U00010000-\U000EFFFF"
PN_CHARS_U = PN_CHARS_BASE + "_"
PN_CHARS = PN_CHARS_U + r"\-0-9\u00B7\u0300-\u036F\u203F-\u2040"
PN_PREFIX = "[%s](?:[%s.]*[%s])?" % (PN_CHARS_BASE, PN_CHARS, PN_CHARS)
PN_OTHERS = r"/@~&+*?#$!"
PN_ESC = r"\\[=\'(),\-:;\[\].]"
PERCENT = r"%[0-9A-Fa-f]{2}"
PN_LOCAL = "(?:[%s0-9%s]|%s|%s)(?:(?:[%s.%s]|%s|%s)*(?:[%s%s]|%s|%s))?" % (
    PN_CHARS_U, PN_OTHERS, PERCENT, PN_ESC, PN_CHARS, PN_OTHERS, PERCENT, PN_ESC, PN_CHARS, PN_OTHERS,
    PERCENT, PN_ESC)
QNAME = "(?:(?P<p>%s):)?(?P<l>%s)|(?P<p2>%s):" % (PN_PREFIX, PN_LOCAL, PN_PREFIX)
DATETIME = r"-?\d{4,}-\d\d-\d\dT\d\d:\d\d:\d\d(?:\.\d+)?(?:Z|[+-]\d\d:\d\d)?"
ECHAR = {"t": "\t", "b": "\b", "n": "\n", "r": "\r", "f": "\f", "\\": "\\", '"': '"', "'": "'"}

TOKEN = re.compile(
    r"(?P<ws>\s+|//[^\n]*|/\*.*?\*/)"
    r'|(?P<str3>"""(?:(?:"|"")?(?:[^"\\]|\\[tbnrf\\"\']))*""")'
    r'|(?P<str1>"(?:[^"\\\n\r]|\\[tbnrf\\"\'])*")'
    r"|(?P<qnlit>'(?:%s)')" % QNAME.replace("?P<p>", "?:").replace("?P<l>", "?:").replace("?P<p2>", "?:") +
    r"|(?P<iri><[^<>\"{}|^`\\\s]*>)"
    r"|(?P<dt>%s)" % DATETIME +
    r"|(?P<pp>%%%%)"
    r"|(?P<lang>@[a-zA-Z]+(?:-[a-zA-Z0-9]+)*)"
    r"|(?P<int>-?\d+(?![\w.:/]))"
    r"|(?P<punct>[();,\[\]=])"
    r"|(?P<marker>-(?![\w]))"
    r"|(?P<qname>%s)" % QNAME.replace("?P<p>", "?:").replace("?P<l>", "?:").replace("?P<p2>", "?:"),
    re.S)
_QN = re.compile(QNAME + r"\Z", re.S)


def tokenize(text):
    pos, out = 0, []
    while pos < len(text):
        m = TOKEN.match(text, pos)
        if not m or m.end() == pos:
            raise ProvNSyntaxError("cannot tokenize at %d: %r" % (pos, text[pos:pos + 30]))
        kind = m.lastgroup
        if kind != "ws":
            out.append((kind, m.group(kind), pos))
        pos = m.end()
    out.append(("eof", "", pos))
    return out


def unescape(body):
    out, i = [], 0
    while i < len(body):
        c = body[i]
        if c == "\\":
            if i + 1 >= len(body) or body[i + 1] not in ECHAR:
                raise ProvNSyntaxError("bad escape in string")
            out.append(ECHAR[body[i + 1]])
            i += 2
        else:
            out.append(c)
            i += 1
    return "".join(out)


def name_of(text):
    m = _QN.match(text)
    if not m:
        raise ProvNSyntaxError("not a qualified name: %r" % text)
    p = m.group("p") or m.group("p2") or ""
    l = m.group("l") or ""
    l = re.sub(r"\\(.)", r"\1", l)       # PN_CHARS_ESC
    return {"p": p, "l": local_segs(l)}


class Parser(object):
    def __init__(self, text, voc):
        self.t = tokenize(text)
        self.i = 0
        self.voc = voc

    def peek(self):
        return self.t[self.i]

    def next(self):
        tok = self.t[self.i]
        self.i += 1
        return tok

    def expect(self, kind, val=None):
        k, v, pos = self.next()
        if k != kind or (val is not None and v != val):
            raise ProvNSyntaxError("expected %s %r at %d, found %s %r" % (kind, val, pos, k, v))
        return v

    def at_word(self, w):
        k, v, _ = self.peek()
        return k == "qname" and v == w

    def decls(self):
        d = {"dflt": [], "pfx": []}
        if self.at_word("default"):
            self.next()
            d["dflt"] = uri_segs(self.expect("iri")[1:-1])
        while self.at_word("prefix"):
            self.next()
            p = self.expect("qname")
            d["pfx"].append([p, uri_segs(self.expect("iri")[1:-1])])
        return d

    def literal(self):
        k, v, pos = self.next()
        if k in ("str1", "str3"):
            body = v[3:-3] if k == "str3" else v[1:-1]
            node = {"l": "str", "s": str_node(unescape(body), self.voc), "dt": [], "lang": ""}
            k2, v2, _ = self.peek()
            if k2 == "pp":
                self.next()
                node["dt"] = [name_of(self.expect("qname"))]
            elif k2 == "lang":
                self.next()
                node["lang"] = v2[1:]
            return node
        if k == "int":
            return {"l": "int", "v": self.voc.token("int", int(v))}
        if k == "qnlit":
            return {"l": "qn", "qn": name_of(v[1:-1])}
        raise ProvNSyntaxError("literal expected at %d, found %s %r" % (pos, k, v))

    def expression(self):
        name = self.expect("qname")
        self.expect("punct", "(")
        e = {"name": name, "hasid": False, "id": [], "args": [], "hasattrs": False, "attrs": []}
        # optional identifier:  (identifier | '-') ';'
        k, v, _ = self.peek()
        k2, v2, _ = self.t[self.i + 1]
        if k in ("qname", "marker") and k2 == "punct" and v2 == ";":
            self.next()
            self.next()
            e["hasid"] = True
            e["id"] = [name_of(v)] if k == "qname" else []
        first = True
        while True:
            k, v, pos = self.peek()
            if k == "punct" and v == ")":
                break
            if not first:
                self.expect("punct", ",")
                k, v, pos = self.peek()
            first = False
            if k == "punct" and v == "[":
                self.next()
                e["hasattrs"] = True
                k, v, _ = self.peek()
                while not (k == "punct" and v == "]"):
                    if e["attrs"]:
                        self.expect("punct", ",")
                    an = name_of(self.expect("qname"))
                    self.expect("punct", "=")
                    e["attrs"].append([an, self.literal()])
                    k, v, _ = self.peek()
                self.expect("punct", "]")
                k, v, pos = self.peek()
                if not (k == "punct" and v == ")"):
                    raise ProvNSyntaxError("attribute list must be last at %d" % pos)
                break
            self.next()
            if k == "marker":
                e["args"].append({"a": "marker"})
            elif k == "dt":
                e["args"].append({"a": "time", "iso": self.voc.iso_token(v) or ""})
            elif k == "qname":
                e["args"].append({"a": "name", "qn": name_of(v)})
            else:
                raise ProvNSyntaxError("argument expected at %d, found %s %r" % (pos, k, v))
        self.expect("punct", ")")
        return e

    def body(self, enders):
        d = self.decls()
        exprs = []
        while not any(self.at_word(w) for w in enders) and self.peek()[0] != "eof":
            exprs.append(self.expression())
        return d, exprs

    def document(self):
        if not self.at_word("document"):
            raise ProvNSyntaxError("'document' expected")
        self.next()
        d, exprs = self.body(["bundle", "endDocument"])
        doc = {"decls": d, "exprs": exprs, "bundles": []}
        while self.at_word("bundle"):
            self.next()
            bid = name_of(self.expect("qname"))
            bd, bex = self.body(["endBundle"])
            if not self.at_word("endBundle"):
                raise ProvNSyntaxError("'endBundle' expected")
            self.next()
            doc["bundles"].append({"id": bid, "decls": bd, "exprs": bex})
        if not self.at_word("endDocument"):
            raise ProvNSyntaxError("'endDocument' expected at %d" % self.peek()[2])
        self.next()
        self.expect("eof")
        return doc


def lex(text, voc):
    return Parser(text, voc).document()
