"""PROV-XML text -> abstract syntax for TLC.  Uses the stdlib expat parser (the
library uses lxml), so that well-formedness and namespace scoping are decided
independently of the code under test.

  element: {"ns": segs of the namespace URI ([] when none), "l": local name (raw), "ls": its segments,
            "attrs": [[{"ns","l"}, str-node], ...], "text": str-node | {"j":"null"},
            "kids": [element...], "nsmap": [[prefix, uri segs], ...]  (in scope; "" = default)}
"""
import xml.parsers.expat

from lex_json import str_node
from vocab import uri_segs, local_segs


def _split(name):
    if " " in name:
        ns, l = name.split(" ", 1)
        return {"ns": uri_segs(ns), "l": l, "ls": local_segs(l)}
    return {"ns": [], "l": name, "ls": local_segs(name)}


def lex(text, voc):
    p = xml.parsers.expat.ParserCreate(namespace_separator=" ")
    p.buffer_text = True
    scopes = [dict()]      # stack of in-scope prefix maps
    pending = {}
    stack = []
    root = []

    def start_ns(prefix, uri):
        pending[prefix or ""] = uri

    def start(name, attrs):
        sc = dict(scopes[-1])
        sc.update(pending)
        pending.clear()
        scopes.append(sc)
        el = _split(name)
        el["attrs"] = [[_split(k), str_node(v, voc)] for k, v in attrs.items()]
        el["text"] = None
        el["kids"] = []
        el["nsmap"] = sorted([[k, uri_segs(v)] for k, v in sc.items() if v])
        el["_txt"] = []
        if stack:
            stack[-1]["kids"].append(el)
        else:
            root.append(el)
        stack.append(el)

    def end(name):
        el = stack.pop()
        scopes.pop()
        txt = "".join(el.pop("_txt"))
        if el["kids"] and not txt.strip():
            el["text"] = {"j": "null"}
        elif txt == "" and not el["kids"]:
            el["text"] = {"j": "null"}
        else:
            el["text"] = str_node(txt, voc)

    def chars(data):
        if stack:
            stack[-1]["_txt"].append(data)

    p.StartNamespaceDeclHandler = start_ns
    p.StartElementHandler = start
    p.EndElementHandler = end
    p.CharacterDataHandler = chars
    p.ordered_attributes = False
    p.Parse(text.encode("utf-8") if isinstance(text, str) else text, True)
    return root[0]
