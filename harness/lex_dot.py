"""DOT text -> abstract syntax for TLC.  Graphviz itself (`dot -Tdot_json`) is
the acceptance oracle and the parser; this module only walks its JSON output
and groups it into the objects the C15 clauses talk about.

  {"ok": bool, "err": str, "rankdir": str,
   "clusters": [{"url": segs}],
   "nodes":   [{"url": segs, "c": URL of the cluster the node is drawn in ([] = top level), "nruns", "text1"}],
   "paths":   [{"label": relation label, "tail": segs|[], "head": segs|[], "via": bool (through a blank node),
                "extra": [[label, segs], ...] (further arguments from the blank node), "ann": bool}],
   "anns":    [{"on": segs|[] (URL of the node it annotates, [] for a blank node), "rows": [attr URI segs...]}],
   "blank": number of blank nodes}
"""
import json
import re
import subprocess

from vocab import uri_segs

REL_LABELS = {"wasGeneratedBy", "used", "wasInformedBy", "wasStartedBy", "wasEndedBy", "wasInvalidatedBy",
              "wasDerivedFrom", "wasAttributedTo", "wasAssociatedWith", "actedOnBehalfOf", "wasInfluencedBy",
              "alternateOf", "specializationOf", "mentionOf", "hadMember"}


def rendered_texts(dot_text):
    """node name -> list of text runs Graphviz actually renders (dot -Tsvg)."""
    import xml.etree.ElementTree as ET
    p = subprocess.run(["dot", "-Tsvg"], input=dot_text.encode("utf-8"), stdout=subprocess.PIPE,
                       stderr=subprocess.PIPE, timeout=60)
    if p.returncode != 0:
        return {}
    ns = "{http://www.w3.org/2000/svg}"
    out = {}
    # Graphviz copies link targets into xlink:href / xlink:title without escaping '&': repair the
    # attribute values before parsing (text runs are escaped properly)
    svg = p.stdout.decode("utf-8", "replace")
    svg = re.sub(r'(xlink:(?:href|title)=")([^"]*)(")',
                 lambda m: m.group(1) + re.sub(r"&(?!(?:amp|lt|gt|quot|apos|#\d+|#x[0-9a-fA-F]+);)", "&amp;", m.group(2))
                 .replace("<", "&lt;") + m.group(3), svg)
    for g in ET.fromstring(svg.encode("utf-8")).iter(ns + "g"):
        if g.get("class") == "node":
            title = g.find(ns + "title")
            out[title.text if title is not None else ""] = ["".join(t.itertext()) for t in g.iter(ns + "text")]
    return out


def _strip_literal(text):
    """A Literal label is shown in its PROV-N form "value"@lang / "value" %% type: the value inside."""
    m = re.match(r'^"""(.*)"""(@[A-Za-z-]+|\s*%%.*)$', text, re.S) or \
        re.match(r'^"(.*)"(@[A-Za-z-]+|\s*%%.*)$', text, re.S)
    return m.group(1).replace('\\"', '"') if m else text


class _Rows(object):
    """Rows of an HTML-like table label: per <TR> the list of (href, text) of its cells."""

    def __init__(self, label):
        from html.parser import HTMLParser
        rows = self.rows = []

        class P(HTMLParser):
            def handle_starttag(self_, tag, attrs):
                if tag == "tr":
                    rows.append([])
                elif tag == "td" and rows:
                    rows[-1].append([dict(attrs).get("href"), ""])

            def handle_data(self_, data):
                if rows and rows[-1]:
                    rows[-1][-1][1] += data
        P(convert_charrefs=True).feed(label)


def lex(dot_text, voc=None):
    """No naming or styling convention of the library is used: a cluster is a subgraph whose name
    begins with "cluster" (Graphviz's own rule), a node that carries a URL stands for a name, a node
    without URL whose label is a table is an annotation, any other node without URL is a blank node."""
    p = subprocess.run(["dot", "-Tdot_json"], input=dot_text.encode("utf-8"), stdout=subprocess.PIPE,
                       stderr=subprocess.PIPE, timeout=60)
    out = {"ok": p.returncode == 0, "err": p.stderr.decode("utf-8", "replace")[:200], "rankdir": "",
           "clusters": [], "nodes": [], "paths": [], "anns": [], "blank": 0}
    if p.returncode != 0:
        return out
    j = json.loads(p.stdout.decode("utf-8"))
    out["rankdir"] = j.get("rankdir", "")
    objs = j.get("objects", [])
    _Subgraphs._cnt = j.get("_subgraph_cnt", 0)
    cluster_of = {}
    for o in objs:
        if "_gvid" in o and not _is_node(o, objs) and o.get("name", "").startswith("cluster"):
            url = uri_segs(o.get("URL", "")) if o.get("URL") else []
            out["clusters"].append({"url": url})
            for g in o.get("nodes", []):
                cluster_of[g] = url
    texts = rendered_texts(dot_text) if voc is not None else {}
    byid = {}
    for o in objs:
        if "_gvid" in o and _is_node(o, objs):
            byid[o["_gvid"]] = o
    kind = {}
    for g, o in byid.items():
        name = o.get("name", "")
        if o.get("URL"):
            kind[g] = "named"
            runs = texts.get(name, [])
            out["nodes"].append({"url": uri_segs(o["URL"]), "c": cluster_of.get(g, []), "nruns": len(runs),
                                 "text1": (voc.token_ws(runs[0]) + voc.token_ws(_strip_literal(runs[0])))
                                 if (voc is not None and runs) else []})
        elif "<TABLE" in o.get("label", "").upper() or "<TR" in o.get("label", "").upper():
            kind[g] = "ann"
        else:
            kind[g] = "blank"
            out["blank"] += 1

    def url(g):
        o = byid[g]
        return uri_segs(o["URL"]) if kind[g] == "named" else []
    edges = j.get("edges", [])
    outgoing = {}
    for e in edges:
        outgoing.setdefault(e["tail"], []).append(e)
    annotated = {}
    for e in edges:
        a, b = e["tail"], e["head"]
        if kind.get(b) == "ann" and kind.get(a) != "ann":
            a, b = b, a                       # the direction of the dashed link is a matter of layout
        if kind.get(a) == "ann":
            rows = []
            for cells in _Rows(byid[a].get("label", "")).rows:
                if cells:
                    rows.append(uri_segs(cells[0][0]) if cells[0][0] else ["?" + cells[0][1].strip()])
            out["anns"].append({"on": url(b), "onblank": kind.get(b) == "blank", "rows": rows})
            annotated[b] = True
    for e in edges:
        lab = e.get("label", "")
        if lab in REL_LABELS and kind.get(e["tail"]) != "ann" and kind.get(e["head"]) != "ann":
            h = e["head"]
            if kind.get(h) == "blank" and any(x.get("label", "") == "" and kind.get(x["head"]) != "ann"
                                              for x in outgoing.get(h, [])):
                # first segment of a path through a blank node
                second = [x for x in outgoing.get(h, []) if x.get("label", "") == "" and kind.get(x["head"]) != "ann"]
                extra = [[x.get("label", ""), url(x["head"])] for x in outgoing.get(h, []) if x.get("label", "") != ""]
                out["paths"].append({"label": lab, "tail": url(e["tail"]),
                                     "head": url(second[0]["head"]) if second else [],
                                     "headblank": bool(second) and kind.get(second[0]["head"]) == "blank",
                                     "via": True, "nseg2": len(second), "extra": sorted(extra),
                                     "ann": bool(annotated.get(h))})
            else:
                out["paths"].append({"label": lab, "tail": url(e["tail"]), "head": url(h),
                                     "headblank": kind.get(h) == "blank", "via": False, "nseg2": 1,
                                     "extra": [], "ann": False})
    return out


def _is_node(o, objs):
    """dot_json lists the subgraphs first (_gvid below _subgraph_cnt), then the nodes."""
    return o.get("_gvid", 0) >= _Subgraphs._cnt


class _Subgraphs(object):
    _cnt = 0
