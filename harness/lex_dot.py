"""DOT text -> abstract syntax for TLC.  Graphviz itself (`dot -Tdot_json`) is
the acceptance oracle and the parser; this module only walks its JSON output
and groups it into the objects the C15 clauses talk about.

  {"ok": bool, "err": str, "rankdir": str,
   "clusters": [{"url": segs, "n": cluster number}],
   "nodes":   [{"url": segs, "shape": str, "el": bool (element style), "c": cluster number (0 = top)}],
   "paths":   [{"label": relation label, "tail": segs|[], "head": segs|[], "via": bool (through a blank node),
                "extra": [[label, segs], ...] (further arguments from the blank node), "ann": bool}],
   "anns":    [{"on": segs|[] (URL of the node it annotates, [] for a blank node), "rows": [attr URI segs...]}],
   "blank": number of blank nodes, "generic": [segs...]}
"""
import json
import re
import subprocess

from vocab import uri_segs

ELEMENT_FILL = {"#FFFC87": "entity", "#9FB1FC": "activity", "#FED37F": "agent"}
REL_LABELS = {"wasGeneratedBy", "used", "wasInformedBy", "wasStartedBy", "wasEndedBy", "wasInvalidatedBy",
              "wasDerivedFrom", "wasAttributedTo", "wasAssociatedWith", "actedOnBehalfOf", "wasInfluencedBy",
              "alternateOf", "specializationOf", "mentionOf", "hadMember"}


def rendered_texts(dot_text):
    """node name -> list of text runs Graphviz actually renders (dot -Tsvg)."""
    import xml.etree.ElementTree as ET
    p = subprocess.run(["dot", "-Tsvg"], input=dot_text.encode("utf-8"), stdout=subprocess.PIPE,
                       stderr=subprocess.PIPE, timeout=60)
    if p.returncode != 0:
        return {}
    ns = "{http://www.w3.org/2000/svg}"
    out = {}
    # Graphviz copies link targets into xlink:href / xlink:title without escaping '&': repair the
    # attribute values before parsing (text runs are escaped properly)
    svg = p.stdout.decode("utf-8", "replace")
    svg = re.sub(r'(xlink:(?:href|title)=")([^"]*)(")',
                 lambda m: m.group(1) + re.sub(r"&(?!(?:amp|lt|gt|quot|apos|#\d+|#x[0-9a-fA-F]+);)", "&amp;", m.group(2))
                 .replace("<", "&lt;") + m.group(3), svg)
    for g in ET.fromstring(svg.encode("utf-8")).iter(ns + "g"):
        if g.get("class") == "node":
            title = g.find(ns + "title")
            out[title.text if title is not None else ""] = ["".join(t.itertext()) for t in g.iter(ns + "text")]
    return out


def _strip_literal(text):
    """A Literal label is shown in its PROV-N form "value"@lang / "value" %% type: the value inside."""
    m = re.match(r'^"""(.*)"""(@[A-Za-z-]+|\s*%%.*)$', text, re.S) or \
        re.match(r'^"(.*)"(@[A-Za-z-]+|\s*%%.*)$', text, re.S)
    return m.group(1).replace('\\"', '"') if m else text


def lex(dot_text, voc=None):
    p = subprocess.run(["dot", "-Tdot_json"], input=dot_text.encode("utf-8"), stdout=subprocess.PIPE,
                       stderr=subprocess.PIPE, timeout=60)
    out = {"ok": p.returncode == 0, "err": p.stderr.decode("utf-8", "replace")[:200], "rankdir": "",
           "clusters": [], "nodes": [], "paths": [], "anns": [], "blank": 0, "generic": []}
    if p.returncode != 0:
        return out
    j = json.loads(p.stdout.decode("utf-8"))
    out["rankdir"] = j.get("rankdir", "")
    objs = j.get("objects", [])
    cluster_of = {}
    for o in objs:
        if "nodes" in o or o.get("name", "").startswith("cluster"):
            m = re.match(r"cluster_c(\d+)", o.get("name", ""))
            n = int(m.group(1)) if m else -1
            out["clusters"].append({"url": uri_segs(o.get("URL", "")) if o.get("URL") else [], "n": n})
            for g in o.get("nodes", []):
                cluster_of[g] = n
    texts = rendered_texts(dot_text) if voc is not None else {}
    byid = {}
    for o in objs:
        if "_gvid" in o and "nodes" not in o and not o.get("name", "").startswith("cluster"):
            byid[o["_gvid"]] = o
    kind = {}
    for g, o in byid.items():
        name = o.get("name", "")
        if name.startswith("ann"):
            kind[g] = "ann"
        elif name.startswith("b") and o.get("shape") == "point":
            kind[g] = "blank"
            out["blank"] += 1
        else:
            el = o.get("fillcolor") in ELEMENT_FILL
            kind[g] = "el" if el else "generic"
            url = uri_segs(o.get("URL", "")) if o.get("URL") else []
            if el:
                runs = texts.get(name, [])
                out["nodes"].append({"url": url, "shape": o.get("shape", ""), "el": True,
                                     "kind": ELEMENT_FILL[o.get("fillcolor")], "c": cluster_of.get(g, 0),
                                     "nruns": len(runs),
                                     "text1": (voc.token_ws(runs[0]) + voc.token_ws(_strip_literal(runs[0])))
                                     if (voc is not None and runs) else []})
            else:
                out["generic"].append(url)

    def url(g):
        o = byid[g]
        return uri_segs(o["URL"]) if o.get("URL") and kind[g] in ("el", "generic") else []
    edges = j.get("edges", [])
    outgoing = {}
    for e in edges:
        outgoing.setdefault(e["tail"], []).append(e)
    annotated = {}
    for e in edges:
        if kind.get(e["tail"]) == "ann":
            o = byid[e["tail"]]
            rows = re.findall(r'<TR>\s*<TD align="left" href="([^"]*)">', o.get("label", ""))
            out["anns"].append({"on": url(e["head"]), "onblank": kind.get(e["head"]) == "blank",
                                "rows": [uri_segs(r) for r in rows]})
            annotated[e["head"]] = True
    for e in edges:
        lab = e.get("label", "")
        if lab in REL_LABELS and kind.get(e["tail"]) != "ann":
            h = e["head"]
            if kind.get(h) == "blank" and any(x.get("label", "") == "" for x in outgoing.get(h, [])):
                # first segment of a path through a blank node
                second = [x for x in outgoing.get(h, []) if x.get("label", "") == ""]
                extra = [[x.get("label", ""), url(x["head"])] for x in outgoing.get(h, []) if x.get("label", "") != ""]
                out["paths"].append({"label": lab, "tail": url(e["tail"]),
                                     "head": url(second[0]["head"]) if second else [],
                                     "headblank": bool(second) and kind.get(second[0]["head"]) == "blank",
                                     "via": True, "nseg2": len(second), "extra": sorted(extra),
                                     "ann": bool(annotated.get(h))})
            else:
                out["paths"].append({"label": lab, "tail": url(e["tail"]), "head": url(h),
                                     "headblank": kind.get(h) == "blank", "via": False, "nseg2": 1,
                                     "extra": [], "ann": False})
    return out
