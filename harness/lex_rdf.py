"""TriG text -> abstract triples for TLC (ProvRdfW.AbsR).  rdflib is the parser and nothing else: the
quads are grouped by graph; triples on a blank node are gathered into a "star" under the one triple that
points to it, so that no blank-node name reaches the specification.

  {"graphs": [{"id": URI segments | [] (the document's own graph),
               "plain": [[s, p, term], ...],
               "stars": [{"s": segs, "q": segs, "props": [[p, term], ...]}, ...]}]}
  term = {"k": "uri"|"lit", "u": segs, "dt": segs, "lang": str, "v": value token}
"""
from vocab import uri_segs

XSD = "http://www.w3.org/2001/XMLSchema#"


def _term(t, voc):
    from rdflib import URIRef, Literal
    if isinstance(t, URIRef):
        return {"k": "uri", "u": uri_segs(str(t)), "dt": [], "lang": "", "v": ""}
    if isinstance(t, Literal):
        dt = str(t.datatype) if t.datatype is not None else ""
        lex = str(t)
        out = {"k": "lit", "u": [], "dt": uri_segs(dt) if dt else [], "lang": str(t.language or ""), "v": ""}
        if dt == XSD + "anyURI":
            out["u"] = uri_segs(lex)
        elif dt == XSD + "int":
            try:
                out["v"] = voc.token("int", int(lex))
            except ValueError:
                out["v"] = "?" + lex
        elif dt == XSD + "double":
            try:
                out["v"] = voc.token("float", float(lex))
            except ValueError:
                out["v"] = "?" + lex
        elif dt == XSD + "boolean":
            out["v"] = voc.token("bool", lex in ("true", "1"))
        elif dt == XSD + "dateTime":
            out["v"] = voc.iso_token(lex) or ("?" + lex)
        else:
            out["v"] = voc.token("str", lex)
        return out
    return {"k": "?", "u": [], "dt": [], "lang": "", "v": "?" + repr(t)}


def lex(text, voc):
    from rdflib import ConjunctiveGraph, BNode, URIRef
    cg = ConjunctiveGraph()
    cg.parse(data=text, format="trig")
    graphs = []
    for ctx in cg.contexts():
        gid = uri_segs(str(ctx.identifier)) if isinstance(ctx.identifier, URIRef) else []
        triples = list(ctx)
        bn_props = {}
        for s, p, o in triples:
            if isinstance(s, BNode):
                bn_props.setdefault(s, []).append([uri_segs(str(p)), _term(o, voc)])
        plain, stars = [], []
        for s, p, o in triples:
            if isinstance(s, BNode):
                continue
            if isinstance(o, BNode):
                stars.append({"s": uri_segs(str(s)), "q": uri_segs(str(p)),
                              "props": sorted(bn_props.get(o, []), key=repr)})
            else:
                plain.append([uri_segs(str(s)), uri_segs(str(p)), _term(o, voc)])
        if plain or stars:
            graphs.append({"id": gid, "plain": sorted(plain, key=repr), "stars": sorted(stars, key=repr)})
    return {"graphs": sorted(graphs, key=lambda g: repr(g["id"]))}
