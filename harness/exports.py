"""C13: a sequence of exports on one document, each compared with the previous
call of the same exporter and with the same call on a twin document (built by
the same calls)."""
import io


def _rdf_iso(a, b):
    from rdflib import ConjunctiveGraph
    from rdflib.compare import isomorphic
    g1, g2 = ConjunctiveGraph(), ConjunctiveGraph()
    g1.parse(data=a, format="trig")
    g2.parse(data=b, format="trig")
    return isomorphic(g1, g2)


def do_export(doc, ex):
    """Returns (kind, payload) ; kind 'text' compares by ==, 'rdf' by isomorphism, 'none' not compared."""
    if ex in ("json", "xml", "provn"):
        return "text", doc.serialize(format=ex)
    if ex == "xmlforce":
        return "text", doc.serialize(format="xml", force_types=True)
    if ex == "jsonsort":
        return "text", doc.serialize(format="json", sort_keys=True, indent=1)
    if ex == "rdf":
        return "rdf", doc.serialize(format="rdf")
    if ex == "getprovn":
        return "text", doc.get_provn()
    if ex == "dot":
        from prov.dot import prov_to_dot
        return "text", prov_to_dot(doc).to_string()
    if ex == "dotlabels":
        from prov.dot import prov_to_dot
        return "text", prov_to_dot(doc, use_labels=True, show_nary=False).to_string()
    if ex == "graph":
        from prov.graph import prov_to_graph
        g = prov_to_graph(doc)
        return "text", "%d nodes %d edges" % (g.number_of_nodes(), g.number_of_edges())
    if ex == "unified":
        return "text", doc.unified().get_provn()
    if ex == "flattened":
        return "text", doc.flattened().get_provn()
    if ex == "eq":
        return "text", str(doc == doc) + str(doc != doc)
    if ex == "hash":
        return "text", str([hash(r) == hash(r) for r in doc.get_records()])
    raise ValueError(ex)


def run_exports(doc, twin, seq):
    items = []
    last = {}
    for ex in seq:
        it = {"ex": ex, "exc": "none", "prev": "first", "twin": "same"}
        try:
            kind, out = do_export(doc, ex)
        except Exception as e:
            it["exc"] = type(e).__name__
            it["twin"] = "same"
            items.append(it)
            continue
        try:
            _, tout = do_export(twin, ex)
        except Exception as e:
            tout = None
        same = (lambda a, b: a is not None and b is not None and (_rdf_iso(a, b) if kind == "rdf" else a == b))
        if ex in last:
            it["prev"] = "same" if same(last[ex], out) else "diff"
        last[ex] = out
        it["twin"] = "same" if same(out, tout) else "diff"
        items.append(it)
    return {"items": items}
