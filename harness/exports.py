"""C13: a sequence of exports on one document, each compared with the previous
call of the same exporter and with the same call on a twin document (built by
the same calls)."""
import io


def _rdf_iso(a, b):
    from rdflib import ConjunctiveGraph
    from rdflib.compare import isomorphic
    g1, g2 = ConjunctiveGraph(), ConjunctiveGraph()
    g1.parse(data=a, format="trig")
    g2.parse(data=b, format="trig")
    return isomorphic(g1, g2)


def build_other(doc):
    """A second document with the same content, built record by record: its namespace managers only know
    what its own records needed (a bundle identifier's namespace need not be registered on the document)."""
    from prov.model import ProvDocument, ProvBundle
    other = ProvDocument()
    for r in doc.get_records():
        other.add_record(r)
    for b in doc.bundles:
        nb = ProvBundle(identifier=b.identifier)
        for r in b.get_records():
            nb.add_record(r)
        other.add_bundle(nb)
    return other


def _snapshot(d):
    from project import proj_ns
    def one(c):
        return (c.get_provn(), proj_ns(c))
    return (one(d), [one(b) for b in d.bundles])


FRAME = {"ok": True}
ALL_EXPORTERS = ["json", "xml", "xmlforce", "jsonsort", "provn", "getprovn", "rdf", "dot", "dotlabels", "graph",
                 "unified", "flattened", "eq", "eqother", "hash"]


def do_export(doc, ex):
    """Returns (kind, payload) ; kind 'text' compares by ==, 'rdf' by isomorphism, 'none' not compared.
    FRAME["ok"] is cleared when a call changed an object other than `doc` that it was only given to read."""
    if ex in ("json", "xml", "provn"):
        return "text", doc.serialize(format=ex)
    if ex == "xmlforce":
        return "text", doc.serialize(format="xml", force_types=True)
    if ex == "jsonsort":
        return "text", doc.serialize(format="json", sort_keys=True, indent=1)
    if ex == "rdf":
        return "rdf", doc.serialize(format="rdf")
    if ex == "getprovn":
        return "text", doc.get_provn()
    if ex == "dot":
        from prov.dot import prov_to_dot
        return "text", prov_to_dot(doc).to_string()
    if ex == "dotlabels":
        from prov.dot import prov_to_dot
        return "text", prov_to_dot(doc, use_labels=True, show_nary=False).to_string()
    if ex == "graph":
        from prov.graph import prov_to_graph
        g = prov_to_graph(doc)
        return "text", "%d nodes %d edges" % (g.number_of_nodes(), g.number_of_edges())
    if ex == "unified":
        return "text", doc.unified().get_provn()
    if ex == "flattened":
        return "text", doc.flattened().get_provn()
    if ex == "eq":
        return "text", str(doc == doc) + str(doc != doc)
    if ex == "eqother":
        # comparison with ANOTHER document of the same content, both ways; neither operand may change
        other = build_other(doc)
        before = _snapshot(other)
        out = "%s %s %s %s" % (doc == other, other == doc, doc != other, other != doc)
        if _snapshot(other) != before:
            FRAME["ok"] = False
        return "text", out
    if ex == "hash":
        return "text", str([hash(r) == hash(r) for r in doc.get_records()])
    raise ValueError(ex)


# --------------------------------------------------------------------------
# The twin document lives in a PRISTINE process: a zygote forked from this one before it ran any
# export forks one child per request; the child rebuilds the document by the same calls and runs the
# same export sequence.  Module-level state that an earlier export left behind in this process (a
# cache, a mutated table, a counter) cannot reach it, so such leaks show up as twin differences.
import os
import pickle
import struct

_ZYG = None


def _read_exact(fd, n):
    buf = b""
    while len(buf) < n:
        chunk = os.read(fd, n - len(buf))
        if not chunk:
            return None
        buf += chunk
    return buf


def _send(fd, data):
    os.write(fd, struct.pack("!I", len(data)))
    view = memoryview(data)
    while view:
        k = os.write(fd, view)
        view = view[k:]


def _recv(fd):
    h = _read_exact(fd, 4)
    if h is None:
        return None
    return _read_exact(fd, struct.unpack("!I", h)[0])


def _cold_child(req):
    import drive
    init, seed, salt, hist, h, seq = req
    wld = drive.World(init, seed, salt)
    for b in hist:
        try:
            wld.prepare_total(b)()
        except Exception:
            pass
    outs = []
    for ex in seq:
        try:
            outs.append(do_export(wld.h[h], ex))
        except Exception as e:
            outs.append(("exc", type(e).__name__))
    return outs


def _zygote_loop(rfd, wfd):
    while True:
        data = _recv(rfd)
        if data is None:
            os._exit(0)
        r, w = os.pipe()
        pid = os.fork()
        if pid == 0:
            os.close(r)
            try:
                out = pickle.dumps(_cold_child(pickle.loads(data)))
            except BaseException as e:
                out = pickle.dumps(("fail", repr(e)))
            _send(w, out)
            os._exit(0)
        os.close(w)
        out = _recv(r)
        os.close(r)
        os.waitpid(pid, 0)
        _send(wfd, out if out is not None else pickle.dumps(("fail", "no answer")))


def ensure_zygote():
    """Fork the zygote now (call before this process runs its first export)."""
    global _ZYG
    if _ZYG is not None and _ZYG[2] == os.getpid():
        return
    p2c_r, p2c_w = os.pipe()
    c2p_r, c2p_w = os.pipe()
    pid = os.fork()
    if pid == 0:
        os.close(p2c_w)
        os.close(c2p_r)
        try:
            _zygote_loop(p2c_r, c2p_w)
        finally:
            os._exit(0)
    os.close(p2c_r)
    os.close(c2p_w)
    _ZYG = (p2c_w, c2p_r, os.getpid())


def cold_exports(init, seed, salt, hist, h, seq):
    ensure_zygote()
    _send(_ZYG[0], pickle.dumps((init, seed, salt, hist, h, list(seq))))
    data = _recv(_ZYG[1])
    if data is None:
        raise RuntimeError("cold twin: the zygote went away")
    out = pickle.loads(data)
    if isinstance(out, tuple) and out and out[0] == "fail":
        raise RuntimeError("cold twin failed: %s" % (out[1],))
    return out


def run_exports(doc, twin, seq):
    items = []
    last = {}
    for ex in seq:
        it = {"ex": ex, "exc": "none", "prev": "first", "twin": "same", "frame": True}
        FRAME["ok"] = True
        try:
            kind, out = do_export(doc, ex)
            it["frame"] = FRAME["ok"]
        except Exception as e:
            it["exc"] = type(e).__name__
            it["twin"] = "same"
            items.append(it)
            continue
        if isinstance(twin, list):          # outputs of the pristine-process twin, one per call
            tkind, tout = twin[len(items)]
            if tkind == "exc":
                tout = None
        else:
            try:
                _, tout = do_export(twin, ex)
            except Exception as e:
                tout = None
        same = (lambda a, b: a is not None and b is not None and (_rdf_iso(a, b) if kind == "rdf" else a == b))
        if ex in last:
            it["prev"] = "same" if same(last[ex], out) else "diff"
        last[ex] = out
        it["twin"] = "same" if same(out, tout) else "diff"
        items.append(it)
    return {"items": items}
