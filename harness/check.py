"""./check <Cxx> [--tier quick|thorough] [--replay path]

Exit 0: property held on everything explored (known findings are printed as
KNOWN-FINDING lines).  Exit 1: VIOLATION line(s).  Exit 2: machinery failure."""
import argparse
import importlib
import json
import os
import sys
import time
import traceback

HERE = os.path.dirname(os.path.abspath(__file__))
VERIF = os.path.dirname(HERE)
sys.path.insert(0, HERE)


def reexec_with_hashseed(seed):
    want = str(seed % 4294967295)
    if os.environ.get("PYTHONHASHSEED") != want:
        os.environ["PYTHONHASHSEED"] = want
        os.environ.setdefault("LC_ALL", "C.UTF-8")
        os.execv(sys.executable, [sys.executable] + sys.argv)


def load_known():
    with open(os.path.join(VERIF, "known_findings.json")) as f:
        k = json.load(f)
    return {(e["id"], e["property"]): e for e in k.get("findings", [])}


def main():
    ap = argparse.ArgumentParser()
    ap.add_argument("prop")
    ap.add_argument("--tier", default=os.environ.get("VERIF_TIER", "quick"))
    ap.add_argument("--replay")
    a = ap.parse_args()
    seed = int(os.environ.get("VERIF_SEED", "0") or 0)
    reexec_with_hashseed(seed)
    from tlcrun import MachineryError, OUT
    pid = a.prop.upper()
    t0 = time.time()
    try:
        mod = importlib.import_module("props." + pid.lower())
        if a.replay:
            res = mod.replay(a.replay)
        else:
            res = mod.run(a.tier, seed)
    except MachineryError as e:
        print("MACHINERY-ERROR property=%s %s" % (pid, e))
        return 2
    except Exception:
        traceback.print_exc()
        print("MACHINERY-ERROR property=%s unexpected exception" % pid)
        return 2
    known = load_known()
    violations = []
    kf_seen = {}
    drift = []
    for f in res["fails"]:
        c = f["clause"]
        if c.startswith("M_"):
            drift.append(f)
            continue
        if not c.startswith(pid):
            # clause of another property evaluated on the same traces: reported by that check
            continue
        kf = f.get("kf") or ""
        if kf and (kf, pid) in known:
            kf_seen.setdefault(kf, []).append(f)
        else:
            violations.append(f)
    for kf, fs in sorted(kf_seen.items()):
        print("KNOWN-FINDING: property=%s %s %s (%d observed steps)"
              % (pid, kf, known[(kf, pid)]["what"], len(fs)))
    if os.environ.get("VERIF_DUMPKF"):
        with open(os.environ["VERIF_DUMPKF"], "w") as fh:
            for kf, fs in sorted(kf_seen.items()):
                for f in fs:
                    fh.write(json.dumps({"kf": kf, "clause": f["clause"], "hist": f["hist"], "init": f.get("init")}) + "\n")
    if drift:
        print("DRIFT property=%s %d steps where the model and the code disagree (first: %s)"
              % (pid, len(drift), json.dumps({k: drift[0][k] for k in ("clause", "hist")})[:int(os.environ.get("VERIF_DRIFTLEN", "400"))]))
    rdir = os.path.join(OUT, "replay")
    os.makedirs(rdir, exist_ok=True)
    if not a.replay:
        for fn in os.listdir(rdir):
            if fn.startswith(pid + "-"):
                os.remove(os.path.join(rdir, fn))
    shown = 0
    seen_clause = {}
    for i, f in enumerate(violations):
        seen_clause[f["clause"]] = seen_clause.get(f["clause"], 0) + 1
        if seen_clause[f["clause"]] > int(os.environ.get("VERIF_MAXREPLAY", "3")):
            continue
        path = os.path.join(rdir, "%s-%d.json" % (pid, i))
        with open(path, "w") as fh:
            json.dump({"property": pid, "clause": f["clause"], "init": f.get("init", res.get("init")),
                       "hist": f["hist"], "from": f.get("from", 1), "step": f["step"], "tid": f["tid"],
                       "seed": seed}, fh)
        print("VIOLATION property=%s replay=%s clause=%s" % (pid, path, f["clause"]))
        shown += 1
    if violations and shown < len(violations):
        print("(%d further violating steps not listed)" % (len(violations) - shown))
    if not a.replay:
        ev = res["evidence"]
        ev.update({"property_id": pid, "tier": a.tier, "seed": seed,
                   "wall_s": round(time.time() - t0, 2), "violations": len(violations)})
        ev["coverage"]["drift_steps"] = len(drift)
        import tlcrun as _t
        if _t.SAMPLING:
            ev["coverage"]["sampled_for_bounded_memory"] = _t.SAMPLING
            ev["coverage"]["exhaustive"] = False
        ev["coverage"]["known_findings_seen"] = {k: len(v) for k, v in kf_seen.items()}
        evdir = os.path.join(os.environ.get("VERIF_OUT") or VERIF, "evidence")
        os.makedirs(evdir, exist_ok=True)
        with open(os.path.join(evdir, pid + ".json"), "w") as fh:
            json.dump(ev, fh, indent=1, sort_keys=True)
    print("%s property=%s tier=%s violations=%d known=%d drift=%d wall=%.1fs"
          % ("FAIL" if violations else "PASS", pid, a.tier, len(violations),
             sum(len(v) for v in kf_seen.values()), len(drift), time.time() - t0))
    return 1 if violations else 0


if __name__ == "__main__":
    sys.exit(main())
