"""Shared pipeline: behaviours -> real code (drive.py, parallel) -> trace
shards -> Trace.tla (C) -> verdict records."""
import json
import multiprocessing as mp
import os
import time

import tlcrun
from tlcrun import OUT, MachineryError


def _drive_chunk(args):
    tag, idx, init, items, seed = args
    import drive  # imported in the worker so that PROV_SRC/pythonpath apply
    traces = []
    for tid, hist, frm in items:
        traces.append(drive.run_behaviour(tid, init, hist, frm, seed))
    path = os.path.join(OUT, tag, "shard%d.json" % idx)
    with open(path, "w") as f:
        json.dump({"traces": traces}, f, separators=(",", ":"))
    sample = traces[0] if traces else None
    nsteps = sum(len(t["steps"]) for t in traces)
    return path, nsteps, sample


def replay_and_validate(tag, init, behaviours, shards=16, timeout=1800, seed=0):
    """behaviours: list of (hist, from).  Returns dict with fails (each with
    the behaviour attached), dones, counts."""
    os.makedirs(os.path.join(OUT, tag), exist_ok=True)
    # a behaviour may carry its own trace id (replays): the id salts the value representatives
    items = [((b[2] if len(b) > 2 else i + 1), b[0], b[1]) for i, b in enumerate(behaviours)]
    if not items:
        raise MachineryError("no behaviours to replay for %s" % tag)
    # bounded memory: beyond VERIF_MAXBEHAV behaviours a seeded sample is replayed
    maxb = int(os.environ.get("VERIF_MAXBEHAV", "250000"))
    if len(items) > maxb:
        import random
        tlcrun.SAMPLING.append({"what": "behaviours replayed (%s)" % tag, "total": len(items), "kept": maxb})
        items = random.Random(seed).sample(items, maxb)
    n = max(1, min(shards, len(items)))
    chunks = [items[i::n] for i in range(n)]
    t0 = time.time()
    # ProcessPoolExecutor: a worker that dies (e.g. killed for memory) raises BrokenProcessPool
    # instead of leaving map() waiting for ever
    from concurrent.futures import ProcessPoolExecutor
    from concurrent.futures.process import BrokenProcessPool
    outs = None
    workers = min(n, os.cpu_count() or 1)
    for attempt in (1, 2, 3):
        try:
            with ProcessPoolExecutor(max_workers=workers, mp_context=mp.get_context("fork")) as pool:
                outs = list(pool.map(_drive_chunk, [(tag, i, init, c, seed) for i, c in enumerate(chunks)]))
            break
        except BrokenProcessPool as e:
            # a worker was killed from outside (memory pressure): once more with fewer workers
            if attempt == 3:
                raise MachineryError("a replay worker died (%s); reduce the number of behaviours" % (e,))
            workers = max(1, workers // 2)
            time.sleep(15 * attempt)
    t_drive = time.time() - t0
    files = [o[0] for o in outs]
    nsteps = sum(o[1] for o in outs)
    fails, dones, t_trace = tlcrun.run_trace_shards(tag, files, timeout=timeout)
    done_ids = {d["tid"] for d in dones}
    missing = [i for (i, h, f) in items if i not in done_ids]
    if missing:
        raise MachineryError("%d traces not consumed to the end by Trace.tla (first tid %d)"
                             % (len(missing), missing[0]))
    by_tid = {it[0]: it for it in items}
    for d in dones:
        hist = by_tid[d["tid"]][1]
        if d["n"] != len(hist):
            raise MachineryError("trace %d consumed to %d of %d" % (d["tid"], d["n"], len(hist)))
    for f in fails:
        f["hist"] = by_tid[f["tid"]][1]
        f["from"] = by_tid[f["tid"]][2]
    nv = {}
    for d in dones:
        for c in d["nv"]:
            nv[c] = nv.get(c, 0) + 1
    for f in files:
        try:
            os.remove(f)
        except OSError:
            pass
    return {"fails": fails, "traces": len(items), "steps": nsteps, "nonvacuous": nv,
            "sample": outs[0][2], "t_drive": round(t_drive, 2), "t_trace": round(t_trace, 2)}
