"""Vocabulary: the mapping between the tokens of the TLA+ specification and
concrete Python values / URI text (DESIGN 2.1).

URI text is a sequence of segments.  The first segment of a URI stands for a
namespace head, every further namespace segment for a path step, and whatever
is left is the local part.  The mapping is total in both directions: text that
is not built from the vocabulary maps to a single segment "?<text>" which
equals no model token.
"""

HEADS = {
    "a": "http://a.example/",
    "c": "http://c.example/",
    "d": "http://d.example/ns#",
    "prov#": "http://www.w3.org/ns/prov#",
    "xsd#": "http://www.w3.org/2001/XMLSchema#",
    "xsi": "http://www.w3.org/2001/XMLSchema-instance",
    "xsd": "http://www.w3.org/2001/XMLSchema",      # PROV-XML's spelling of the XSD namespace
    "xml": "http://www.w3.org/XML/1998/namespace",
}
# path steps that may follow a head inside a namespace URI
PATH = {"b": "b/",
        # only inside URI *values* (xsd:anyURI), never in names: a query string with an ampersand
        "amp": "q?a=1&b=2",
        # a namespace that differs from its parent only by an (empty) fragment marker
        "hash": "#"}

# The application namespaces have several concrete spellings; which one a trace uses follows from its
# salt (set_variant).  Traces replayed one after another in one process therefore bind the same
# prefixes to DIFFERENT URIs, and only the current spelling maps back to the token: anything a
# process-wide cache carries over from an earlier document shows up as an unknown URI.
HEAD_VARIANTS = {
    "a": ["http://a.example/", "http://a.example.org/", "http://alpha.example/"],
    "c": ["http://c.example/", "http://c.example.org/", "http://gamma.example/"],
}
_HEADS_BY_LEN = sorted(HEADS.items(), key=lambda kv: -len(kv[1]))


def set_variant(n):
    global _HEADS_BY_LEN
    for k, alts in HEAD_VARIANTS.items():
        HEADS[k] = alts[n % len(alts)]
    _HEADS_BY_LEN = sorted(HEADS.items(), key=lambda kv: -len(kv[1]))


def seg_text(i, seg):
    if i == 0:
        if seg not in HEADS:
            raise KeyError("unknown head segment %r" % (seg,))
        return HEADS[seg]
    return PATH.get(seg, seg)


def uri_text(segs):
    """Concrete URI of a segment sequence (namespace or full URI)."""
    return "".join(seg_text(i, s) for i, s in enumerate(segs))


def local_text(segs):
    """Concrete local part of a segment sequence."""
    return "".join(PATH.get(s, s) for s in segs)


def local_segs(text):
    segs = []
    rest = text
    progress = True
    while rest and progress:
        progress = False
        for s, t in PATH.items():
            if rest.startswith(t):
                segs.append(s)
                rest = rest[len(t):]
                progress = True
                break
    if rest:
        segs.append(rest)
    return segs


def uri_segs(text):
    """Segments of a concrete URI (inverse of uri_text, total)."""
    if text is None:
        return []
    for s, t in _HEADS_BY_LEN:
        if text.startswith(t):
            return [s] + local_segs(text[len(t):])
    return ["?" + text]


# --------------------------------------------------------------------------
# Value tokens <-> concrete Python values
import datetime as _dt
import hashlib as _hl

_TZ530 = _dt.timezone(_dt.timedelta(hours=5, minutes=30))
_TZM8 = _dt.timezone(_dt.timedelta(hours=-8))
_TZM330 = _dt.timezone(-_dt.timedelta(hours=3, minutes=30))      # negative, not a whole hour
_TZM030 = _dt.timezone(-_dt.timedelta(minutes=30))

POOLS = {
    "str": {
        "s1": ["s1", 'say "hi"', "a\\b", "l1\nl2", "ü<&>'", " lead ", "tab\there", "中文 \U0001F600",
               "two  blanks   in a row"],
        "s2": ["s2", "x=1, y=[2]", "'single'", "semi;colon", "%% @en", "\\\\server\\share", "q\"\"\"q"],
        "e": [""],
        "n1": ["1"],          # a string with the text of the int 1 (same text, other kind)
        # quoting hazards: multi-line AND quotes, trailing quote / backslash, lone specials
        "nq": ['l1\nl2"', 'a\n"""b', '"', "\\", "ends\\", 'x\n\\"y\n', "<b>&amp;</b>", 'tab\t"q"', "''' '",
               "a<b & c>", "<i>x</i>", "R&D <tag/>", "x  y\n  z"],
    },
    "int": {"0": [0], "1": [1], "7": [7, -1, 2 ** 31, 2 ** 70, -(2 ** 63), 12345678901234567890]},
    "float": {"0": [0.0], "1": [1.0],
              "h": [0.5, 0.1, 0.123456789, 1e308, 5e-324, -2.5e-07, 1234567.891, 1e22]},
    "bool": {"0": [False], "1": [True]},
    "dt": {
        "t1": [_dt.datetime(2012, 3, 4, 5, 6, 7),
               _dt.datetime(2012, 3, 4, 5, 6, 7, tzinfo=_dt.timezone.utc),
               _dt.datetime(2012, 3, 4, 5, 6, 7, 890000, tzinfo=_TZ530),
               _dt.datetime(1999, 12, 31, 23, 59, 59, 1),
               _dt.datetime(2012, 3, 4, 5, 6, 7, tzinfo=_TZM330),
               _dt.datetime(2012, 3, 4, 0, 10, 7, 120000, tzinfo=_TZM030)],
        "t2": [_dt.datetime(2014, 6, 1, 12, 0, 0),
               _dt.datetime(2014, 6, 1, 12, 0, 0, tzinfo=_TZM8),
               _dt.datetime(2014, 6, 1, 12, 0, 0, 500, tzinfo=_dt.timezone.utc),
               _dt.datetime(2038, 1, 19, 3, 14, 8),
               _dt.datetime(2014, 6, 1, 12, 0, 0, tzinfo=_TZM330)],
    },
}


class Vocab(object):
    """Chooses one concrete representative per token from (seed, salt) and
    maps concrete values back to tokens (total: unknown values get "?…")."""

    def __init__(self, seed=0, salt=0, plain=False):
        self.rep = {}
        self.rev = {}
        for kind, toks in POOLS.items():
            for tok, pool in toks.items():
                if plain:
                    i = 0
                else:
                    d = _hl.sha256(("%s|%s|%s|%s" % (seed, salt, kind, tok)).encode()).digest()
                    i = int.from_bytes(d[:4], "big") % len(pool)
                v = pool[i]
                self.rep[(kind, tok)] = v
                self.rev[self._key(kind, v)] = tok
        for tok in POOLS["dt"]:
            self.rev[("isostr", self.rep[("dt", tok)].isoformat())] = tok

    @staticmethod
    def _key(kind, v):
        if kind == "dt":
            return (kind, v.isoformat(), v.utcoffset())
        if kind == "float":
            return (kind, repr(v))
        return (kind, v)

    def value(self, kind, tok):
        return self.rep[(kind, tok)]

    def token(self, kind, v):
        t = self.rev.get(self._key(kind, v))
        return t if t is not None else "?" + repr(v)

    def token_ws(self, text):
        """String token whose representative equals `text` up to white space (HTML-like
        labels collapse it); ["?..."] when there is none.  Returns the list of all such tokens."""
        squash = lambda x: "".join(x.split()).replace("\\", "")
        hits = [tok for (kind, tok), v in self.rep.items() if kind == "str" and squash(v) == squash(text)]
        return hits or ["?" + repr(text)]

    def iso_token(self, s):
        return self.rev.get(("isostr", s))
