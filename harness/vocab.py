"""Vocabulary: the mapping between the tokens of the TLA+ specification and
concrete Python values / URI text (DESIGN 2.1).

URI text is a sequence of segments.  The first segment of a URI stands for a
namespace head, every further namespace segment for a path step, and whatever
is left is the local part.  The mapping is total in both directions: text that
is not built from the vocabulary maps to a single segment "?<text>" which
equals no model token.
"""

HEADS = {
    "a": "http://a.example/",
    "c": "http://c.example/",
    "d": "http://d.example/ns#",
    "prov#": "http://www.w3.org/ns/prov#",
    "xsd#": "http://www.w3.org/2001/XMLSchema#",
    "xsi": "http://www.w3.org/2001/XMLSchema-instance",
}
# path steps that may follow a head inside a namespace URI
PATH = {"b": "b/"}

_HEADS_BY_LEN = sorted(HEADS.items(), key=lambda kv: -len(kv[1]))


def seg_text(i, seg):
    if i == 0:
        if seg not in HEADS:
            raise KeyError("unknown head segment %r" % (seg,))
        return HEADS[seg]
    return PATH.get(seg, seg)


def uri_text(segs):
    """Concrete URI of a segment sequence (namespace or full URI)."""
    return "".join(seg_text(i, s) for i, s in enumerate(segs))


def local_text(segs):
    """Concrete local part of a segment sequence."""
    return "".join(PATH.get(s, s) for s in segs)


def local_segs(text):
    segs = []
    rest = text
    progress = True
    while rest and progress:
        progress = False
        for s, t in PATH.items():
            if rest.startswith(t):
                segs.append(s)
                rest = rest[len(t):]
                progress = True
                break
    if rest:
        segs.append(rest)
    return segs


def uri_segs(text):
    """Segments of a concrete URI (inverse of uri_text, total)."""
    if text is None:
        return []
    for s, t in _HEADS_BY_LEN:
        if text.startswith(t):
            return [s] + local_segs(text[len(t):])
    return ["?" + text]
