"""Driver: interprets behaviours (lists of calls produced by TLC or by
randdrive) against the REAL prov library and records, per call, what the
public API shows.  It makes no judgement (DESIGN 2.4)."""
import json
import logging
import os
import sys

logging.getLogger("rdflib").setLevel(logging.ERROR)

import prov
from prov.model import ProvDocument, ProvBundle, ProvException, Literal
from prov.identifier import Namespace, QualifiedName, Identifier
from prov import constants as PC

from vocab import uri_text, local_text, uri_segs, Vocab
from project import proj_ns, proj_qn, printed_form, proj_container

REC_TYPE = {
    "entity": PC.PROV_ENTITY, "activity": PC.PROV_ACTIVITY, "agent": PC.PROV_AGENT,
    "generation": PC.PROV_GENERATION, "usage": PC.PROV_USAGE,
    "communication": PC.PROV_COMMUNICATION, "start": PC.PROV_START, "end": PC.PROV_END,
    "invalidation": PC.PROV_INVALIDATION, "derivation": PC.PROV_DERIVATION,
    "attribution": PC.PROV_ATTRIBUTION, "association": PC.PROV_ASSOCIATION,
    "delegation": PC.PROV_DELEGATION, "influence": PC.PROV_INFLUENCE,
    "specialization": PC.PROV_SPECIALIZATION, "alternate": PC.PROV_ALTERNATE,
    "mention": PC.PROV_MENTION, "membership": PC.PROV_MEMBERSHIP,
}
FORMALS = {
    "entity": [], "agent": [], "activity": ["startTime", "endTime"],
    "generation": ["entity", "activity", "time"], "usage": ["activity", "entity", "time"],
    "communication": ["informed", "informant"],
    "start": ["activity", "trigger", "starter", "time"],
    "end": ["activity", "trigger", "ender", "time"],
    "invalidation": ["entity", "activity", "time"],
    "derivation": ["generatedEntity", "usedEntity", "activity", "generation", "usage"],
    "attribution": ["entity", "agent"], "association": ["activity", "agent", "plan"],
    "delegation": ["delegate", "responsible", "activity"],
    "influence": ["influencee", "influencer"],
    "specialization": ["specificEntity", "generalEntity"],
    "alternate": ["alternate1", "alternate2"],
    "mention": ["specificEntity", "generalEntity", "bundle"],
    "membership": ["collection", "entity"],
}
FACTORY = {
    "entity": "entity", "activity": "activity", "agent": "agent", "generation": "generation",
    "usage": "usage", "communication": "communication", "start": "start", "end": "end",
    "invalidation": "invalidation", "derivation": "derivation", "attribution": "attribution",
    "association": "association", "delegation": "delegation", "influence": "influence",
    "specialization": "specialization", "alternate": "alternate", "mention": "mention",
    "membership": "membership",
}
ALIAS = {
    "generation": "wasGeneratedBy", "usage": "used", "communication": "wasInformedBy",
    "start": "wasStartedBy", "end": "wasEndedBy", "invalidation": "wasInvalidatedBy",
    "derivation": "wasDerivedFrom", "attribution": "wasAttributedTo",
    "association": "wasAssociatedWith", "delegation": "actedOnBehalfOf",
    "influence": "wasInfluencedBy", "specialization": "specializationOf",
    "alternate": "alternateOf", "mention": "mentionOf", "membership": "hadMember",
}
import prov.model as _PM
REC_CLASS = {
    "entity": _PM.ProvEntity, "activity": _PM.ProvActivity, "agent": _PM.ProvAgent,
    "generation": _PM.ProvGeneration, "usage": _PM.ProvUsage,
    "communication": _PM.ProvCommunication, "start": _PM.ProvStart, "end": _PM.ProvEnd,
    "invalidation": _PM.ProvInvalidation, "derivation": _PM.ProvDerivation,
    "attribution": _PM.ProvAttribution, "association": _PM.ProvAssociation,
    "delegation": _PM.ProvDelegation, "influence": _PM.ProvInfluence,
    "specialization": _PM.ProvSpecialization, "alternate": _PM.ProvAlternate,
    "mention": _PM.ProvMention, "membership": _PM.ProvMembership,
    "element": _PM.ProvElement, "relation": _PM.ProvRelation,
}
HELD_CLASSES = {k: REC_CLASS[k] for k in ("element", "relation", "entity", "agent")}
NO_ID_FACTORY = {"specialization", "alternate", "mention", "membership"}
XSD_T = {"string": PC.XSD_STRING, "double": PC.XSD_DOUBLE, "long": PC.XSD_LONG,
         "int": PC.XSD_INT, "boolean": PC.XSD_BOOLEAN, "dateTime": PC.XSD_DATETIME,
         "anyURI": PC.XSD_ANYURI}
NATIVE_KIND = {"string": "str", "double": "float", "long": "int", "int": "int",
               "boolean": "bool", "dateTime": "dt", "anyURI": "uri"}


def exc_name(e):
    if isinstance(e, ProvException):
        return "ProvException"
    if isinstance(e, prov.Error):
        return "Error:" + type(e).__name__
    return "other:" + type(e).__name__


def sample_doc(voc, variant=0):
    """A small document with non-ASCII content, in the intersection of the
    PROV-JSON / PROV-XML / PROV-O expressible spaces; `variant` adds shapes."""
    d = ProvDocument()
    d.add_namespace("ex", uri_text(["a"]))
    if variant == 7:
        # nothing at the top level: every record lives in the bundle
        b = d.bundle("ex:b")
        b.entity("ex:é-中", {"ex:u": "ünï-中"})
        b.agent("ex:ag")
        return d
    if variant % 2:
        d.add_namespace("other", uri_text(["c"]))
    s1 = voc.value("str", "s1")
    if "\r" in s1 or "\\" in s1:
        s1 = "s1"
    e = d.entity("ex:e", {"ex:s": s1, "ex:u": "ünï-中-\U0001F600", "ex:i": 7,
                          "ex:t": voc.value("dt", "t1"), "prov:label": Literal("étiquette", langtag="fr")})
    a = d.activity("ex:a", voc.value("dt", "t1"), None)
    d.wasGeneratedBy(e, a, voc.value("dt", "t2"))
    if variant >= 2:
        ag = d.agent("other:ag" if variant % 2 else "ex:ag2", {"ex:b": True})
        d.wasAssociatedWith(a, ag, identifier="ex:assoc", other_attributes={"prov:role": "ex:r"})
        d.wasAttributedTo(e, ag)
    if variant >= 4:
        d.entity("ex:é-中", {"ex:q": d.valid_qualified_name("ex:e")})
    if variant in (1, 5):
        # line boundaries other than LF inside a value (NEL, LINE SEPARATOR, PARAGRAPH SEPARATOR):
        # valid in every format; text and binary targets must carry the same characters
        d.entity("ex:lines", {"ex:v": "Größe\u0085Maß\u2028x\u2029y"})
    if variant == 6:
        # several stream buffers long, non-ASCII characters everywhere (whatever is written block-wise
        # meets a character across a block boundary)
        for i in range(400):
            d.entity("ex:big%d" % i, {"ex:cjk": "中文字符" * 6 + str(i), "ex:lat": "ßüéñ" * 5})
    b = d.bundle("ex:b")
    b.agent("ex:ag")
    return d


class Loose(object):
    """A record that belongs to no container's list (record.copy()), presented
    with the little container API the projection needs."""

    def __init__(self, rec):
        self._rec = rec

    records = property(lambda self: [self._rec])

    def get_records(self, cls=None):
        return [self._rec] if cls is None or isinstance(self._rec, cls) else []

    def get_record(self, x):
        return []

    namespaces = property(lambda self: self._rec.bundle.namespaces)

    def get_default_namespace(self):
        return self._rec.bundle.get_default_namespace()

    identifier = None
    bundles = ()

    def is_document(self):
        return False

    def is_bundle(self):
        return False

    def valid_qualified_name(self, x):
        return self._rec.bundle.valid_qualified_name(x)


def _text_digest(c):
    import hashlib
    try:
        text = "\n".join(sorted(r.get_provn() for r in c.get_records()))
    except Exception as e:
        text = "!" + type(e).__name__
    return hashlib.sha1(text.encode("utf-8", "replace")).hexdigest()[:10]


def inspect_records(doc):
    """Calls the read-only public accessors of every record (as a user inspecting a document would
    before exporting it).  They must not change what any writer emits afterwards."""
    for c in [doc] + list(doc.bundles):
        for r in c.get_records():
            try:
                r.args, r.formal_attributes, r.extra_attributes, r.attributes
                repr(r), str(r), hash(r), r.label, r.get_asserted_types(), r.identifier
                r.get_attribute("prov:type"), r.is_element(), r.is_relation()
                if hasattr(r, "get_startTime"):
                    r.get_startTime(), r.get_endTime()
                if hasattr(r, "value"):
                    r.value
            except Exception:
                pass


class NoSuchObject(Exception):
    pass


class World(object):
    """Live objects of one behaviour, addressed by the spec's handle names."""

    def __init__(self, init, seed=0, salt=0):
        import vocab as _vocab
        _vocab.set_variant(salt + seed)      # which concrete URIs the application namespaces have here
        self.voc = Vocab(seed, salt)
        self.voc_seed = seed
        self.init = init
        self.hist_so_far = []
        self.asked_default = {}
        self.salt = salt
        self.h = {}        # handle -> container
        self.handed = []   # (scope, printed form, uri segs)
        self.anon = 0
        if init == "docbun":
            doc = ProvDocument()
            self.h["doc"] = doc
            self.h["bun"] = doc.bundle("prov:bun")
        elif init == "doc":
            self.h["doc"] = ProvDocument()
        elif init == "empty":
            pass
        else:
            raise ValueError("unknown init %r" % (init,))

    # ---- handles -----------------------------------------------------
    def handle_of(self, obj):
        for k, c in self.h.items():
            if c is obj:
                return k
        return None

    def adopt(self, obj, name):
        """Register a container the library created under the handle the spec uses."""
        if self.handle_of(obj) is None:
            self.h[name] = obj

    def sweep(self):
        """Every bundle reachable from a live document gets a handle (total projection)."""
        for k, c in list(self.h.items()):
            if c.is_document():
                for b in c.bundles:
                    if self.handle_of(b) is None:
                        self.anon += 1
                        self.h["anon%d" % self.anon] = b

    @property
    def parents(self):
        out = {}
        for k, c in self.h.items():
            if isinstance(c, Loose):
                out[k] = self.handle_of(c._rec.bundle) or ""
                continue
            d = c.document if c.is_bundle() else None
            out[k] = (self.handle_of(d) or "") if d is not None else ""
        return out

    # ---- argument construction -------------------------------------
    @staticmethod
    def str_form(s):
        if s["k"] == "pl":
            return "%s:%s" % (s["p"], local_text(s["l"]))
        if s["k"] == "bare":
            return local_text(s["l"])
        if s["k"] == "uri":
            return uri_text(s["u"])
        raise ValueError(s)

    def rec(self, r):
        return self.h[r["c"]].records[r["i"] - 1]

    def name(self, n):
        rep = n["rep"]
        if rep == "qn":
            return QualifiedName(Namespace(n["p"], uri_text(n["ns"])), local_text(n["l"]))
        if rep == "pl":
            return "%s:%s" % (n["p"], local_text(n["l"]))
        if rep == "bare":
            return local_text(n["l"])
        if rep == "uri":
            return uri_text(n["u"])
        if rep == "rec":
            return self.rec(n["r"])
        raise ValueError(n)

    def lexical(self, T, tok):
        kind = NATIVE_KIND[T]
        if kind == "uri":
            return uri_text(tok)
        v = self.voc.value(kind, tok)
        if kind == "bool":
            forms = (["true", "1", "True", "TRUE"] if v else ["false", "0", "False", "FALSE"])
            return forms[self.salt % 4]
        if kind == "dt":
            return v.isoformat()
        if kind == "float":
            # valid xsd:double lexical forms of the same number: shortest repr, exponent form, and the
            # integral spelling ("1" for 1.0) - the stored value must be the float in every case
            forms = [repr(v), "%.17e" % v]
            if v == int(v) and abs(v) < 1e15:
                forms.append(str(int(v)))
            return forms[self.salt % len(forms)]
        if kind == "int":
            forms = [str(v), "+" + str(v) if v >= 0 else str(v), "0" + str(v) if v >= 0 else str(v)]
            return forms[self.salt % 3]
        return str(v)

    def value(self, iv):
        t = iv["t"]
        if t in ("str", "int", "float", "bool", "dt"):
            return self.voc.value(t, iv["v"])
        if t == "uri":
            return Identifier(uri_text(iv["u"]))
        if t == "name":
            return self.name(iv["n"])
        if t == "nlit":
            dt = XSD_T[iv["T"]]
            if self.salt % 3 == 2:
                # the same datatype URI under another prefix (what identifies a datatype is its URI)
                dt = QualifiedName(Namespace("xs", dt.namespace.uri), dt.localpart)
            return Literal(self.lexical(iv["T"], iv["u"] if iv["T"] == "anyURI" else iv["v"]), dt)
        if t == "isolit":
            # the ISO text of a datetime wrapped in a Literal (typed xsd:string, or untyped)
            iso = self.voc.value("dt", iv["v"]).isoformat()
            return Literal(iso, XSD_T["string"]) if iv["typed"] else Literal(iso)
        if t == "plit":
            return Literal(self.voc.value("str", iv["v"]))
        if t == "iso":
            return self.voc.value("dt", iv["v"]).isoformat()
        if t == "lit":
            d = iv["dt"]
            return Literal(self.voc.value("str", iv["v"]),
                           QualifiedName(Namespace(d["p"], uri_text(d["ns"])), local_text(d["l"])))
        if t == "lang":
            return Literal(self.voc.value("str", iv["v"]), langtag=iv["lang"])
        raise ValueError(iv)

    # ---- observation ------------------------------------------------
    def observe(self):
        self.sweep()
        con = {}
        for k, c in self.h.items():
            p = proj_container(c, self.voc)
            p["kind"] = "doc" if c.is_document() else ("loose" if isinstance(c, Loose) else "bun")
            ident = c.identifier
            p["id"] = uri_segs(ident.uri) if ident is not None else []
            p["bundles"] = [self.handle_of(b) for b in c.bundles] if c.is_document() else []
            # how the records of this container PRINT (digest): the same URIs under a prefix the
            # container does not declare are not the same observable content
            p["txt"] = _text_digest(c)
            con[k] = p
        return {"ns": {k: proj_ns(c) for k, c in self.h.items()}, "con": con}

    # ---- C18 observations: lookups, typed listings, copy ----------------
    def lookups(self):
        from vocab import local_segs
        import prov.model as PM
        look, typed, copy = [], {}, {}
        par = self.parents
        for h, c in self.h.items():
            recs = c.records
            pos = {id(r): i + 1 for i, r in enumerate(recs)}
            own = [(ns.prefix, ns.uri) for ns in c.namespaces]
            vis = list(own) + [("prov", PC.PROV.uri), ("xsd", PC.XSD.uri)]
            d = c.get_default_namespace()
            dflt = d.uri if d is not None else None
            if not own and par.get(h):
                pc = self.h[par[h]]
                vis += [(ns.prefix, ns.uri) for ns in pc.namespaces]
                if dflt is None and pc.get_default_namespace() is not None:
                    dflt = pc.get_default_namespace().uri
            uris = []
            for r in recs:
                if r.identifier is not None and r.identifier.uri not in uris:
                    uris.append(r.identifier.uri)
            # ... identifiers that only OTHER containers (parent, bundles, siblings) hold: absent here
            foreign = []
            for h2, c2 in self.h.items():
                if c2 is c:
                    continue
                for r in c2.records:
                    if r.identifier is not None and r.identifier.uri not in uris and r.identifier.uri not in foreign:
                        foreign.append(r.identifier.uri)
            uris = uris[:4] + foreign[:3] + [uri_text(["a", "nope"])]
            for u in uris:
                spell = [({"rep": "uri", "u": uri_segs(u)}, u)]
                for (p, nsu) in vis:
                    if p and u.startswith(nsu) and len(u) > len(nsu):
                        l = u[len(nsu):]
                        spell.append(({"rep": "pl", "p": p, "l": local_segs(l)}, "%s:%s" % (p, l)))
                if dflt and u.startswith(dflt) and len(u) > len(dflt) and ":" not in u[len(dflt):]:
                    l = u[len(dflt):]
                    spell.append(({"rep": "bare", "l": local_segs(l)}, l))
                for (n, text) in spell:
                    got = c.get_record(text)
                    q = c.valid_qualified_name(text)
                    look.append({"h": h, "n": n, "idx": [pos.get(id(g), 0) for g in (got or [])],
                                 "den": uri_segs(q.uri) if q is not None else []})
            t = {}
            for k, cls in REC_CLASS.items():
                t[k] = [pos.get(id(r), 0) for r in c.get_records(cls)]
            typed[h] = t
            got = c.records
            n0 = len(got)
            got.append(None)
            del got[0:1]
            again = c.records
            copy[h] = (len(again) == n0 and all(x is y for x, y in zip(again, recs)))
        return look, typed, copy

    def reres(self):
        out = []
        for (s, form, uri, via) in self.handed:
            text = self.str_form(form)
            now = self.h[s].valid_qualified_name(text)
            par = self.parents.get(s, "")
            up = self.h[par].valid_qualified_name(text) if par else None
            out.append({"s": s, "str": form, "uri": uri, "via": via,
                        "now": proj_qn(now), "up": proj_qn(up),
                        # the default namespace scope s has been ASKED to use (set_default_namespace calls
                        # of this history), whatever the library made of the request
                        "asked": self.asked_default.get(s, [])})
        return out

    # ---- calls -------------------------------------------------------
    def new_rec(self, a):
        c = self.h[a["h"]]
        k = a["k"]
        ident = self.name(a["id"][0]) if a["id"] else None
        formals = [(f[0], self.value(f[1])) for f in a["formals"]]
        extras = [(self.name(e[0]), self.value(e[1])) for e in a["extras"]]
        via = a.get("via", "new_record")
        if via in ("revision", "quotation", "primary_source"):      # typed derivation factories
            fd = dict(formals)
            args = [fd.get(f) for f in FORMALS[k]]
            meth = getattr(c, via if self.salt % 2 else {"revision": "wasRevisionOf", "quotation": "wasQuotedFrom",
                                                          "primary_source": "hadPrimarySource"}[via])
            return lambda: meth(*args, identifier=ident, other_attributes=extras or None)
        if via == "collection":
            return lambda: c.collection(ident, extras or None)
        if via in ("factory", "alias") and (k not in NO_ID_FACTORY or (ident is None and not extras)):
            fd = dict(formals)
            args = [fd.get(f) for f in FORMALS[k]]
            meth = getattr(c, FACTORY[k] if via == "factory" or k not in ALIAS else ALIAS[k])
            if k in ("entity", "agent"):
                return lambda: meth(ident, extras or None)
            if k == "activity":
                return lambda: meth(ident, args[0], args[1], extras or None)
            if k in NO_ID_FACTORY:
                return lambda: meth(*args)
            return lambda: meth(*args, identifier=ident, other_attributes=extras or None)
        fattrs = {PC.PROV[f]: v for f, v in formals}
        if self.salt % 2:
            fattrs = list(fattrs.items())
        rt = REC_TYPE[k]
        return lambda: c.new_record(rt, ident, fattrs, extras or None)

    def prepare(self, a):
        """Builds the arguments (harness errors surface here) and returns a
        thunk that performs the library call and projects its result."""
        op = a["op"]
        none = proj_qn(None)

        def const(f):
            def run():
                f()
                return none
            return run
        if op == "NewRec":
            return const(self.new_rec(a))
        if op == "AddAttrs":
            pairs = [(self.name(p[0]), self.value(p[1])) for p in a["pairs"]]
            if a.get("form") == "dict":
                pairs = dict(pairs)
            r = self.rec(a["r"])
            return const(lambda: r.add_attributes(pairs))
        if op == "SetTime":
            r = self.rec(a["r"])
            st = self.value(a["start"][0]) if a["start"] else None
            en = self.value(a["end"][0]) if a["end"] else None
            return const(lambda: r.set_time(st, en))
        if op == "AddType":
            r = self.rec(a["r"])
            v = self.value(a["v"])
            return const(lambda: r.add_asserted_type(v))
        if op == "CopyRec":
            r = self.rec(a["r"])

            def run():
                self.h[a["out"]] = Loose(r.copy())
                return none
            return run
        if op == "AddRecord":
            c = self.h[a["h"]]
            r = self.rec(a["r"])
            return const(lambda: c.add_record(r))
        if op == "NewDoc":
            def run():
                self.h[a["out"]] = ProvDocument()
                return none
            return run
        if op == "NewBundle":
            d = a["id"]
            ident = QualifiedName(Namespace(d["p"], uri_text(d["ns"])), local_text(d["l"]))

            def run():
                self.h[a["out"]] = ProvBundle(identifier=ident)
                return none
            return run
        if op == "RT":
            import roundtrip
            doc = self.h[a["h"]]

            def run():
                if self.salt % 2:
                    inspect_records(doc)      # read-only public accessors, used before writing
                self.rt = roundtrip.run_rt(doc, a["fmt"], a["opts"], self.voc)
                return none
            return run
        if op == "Load":
            import roundtrip
            import foreign
            doc = self.h[a["h"]]

            def run():
                src = roundtrip.proj_doc(doc, self.voc)
                self.graph = {"src": src}
                text = (foreign.render_json if a["fmt"] == "json" else foreign.render_xml)(src, a["fl"], self.voc)
                return foreign.stability(text, a["fmt"], self.voc)
            return run
        if op == "Corpus":
            import foreign
            files = foreign.corpus_files(a["fmt"])
            path = files[(a["idx"] - 1) % len(files)]
            plain = Vocab(0, 0, True)

            def run():
                with open(path, encoding="utf-8") as fh:
                    text = fh.read()
                r0 = foreign.stability(text, a["fmt"], plain, xml_ok=False)
                self.graph = {"res0": r0, "file": os.path.basename(path)}
                if a["mut"] == "none":
                    return r0
                import random
                mt = foreign.mutate_json(text, a["mut"], random.Random(a["idx"]))
                if mt is None:
                    self.graph["res0"] = dict(r0, exc="notapplicable")
                    return r0
                return foreign.stability(mt, a["fmt"], plain, xml_ok=False)
            return run
        if op == "Dot":
            import roundtrip
            import lex_dot
            from prov.dot import prov_to_dot
            doc = self.h[a["h"]]
            o = a["opts"]

            def run():
                self.graph = {"src": roundtrip.proj_doc(doc, self.voc)}
                d = prov_to_dot(doc, show_nary=o["nary"], use_labels=o["labels"], direction=o["dir"],
                                show_element_attributes=o["elattrs"], show_relation_attributes=o["relattrs"])
                return lex_dot.lex(d.to_string(), self.voc)
            return run
        if op == "Graph":
            import roundtrip
            from prov.graph import prov_to_graph, graph_to_prov
            from project import proj_record, KIND_OF
            doc = self.h[a["h"]]

            def run():
                g = prov_to_graph(doc)
                nodes = []
                for n in g.nodes():
                    pr = proj_record(n, self.voc) if hasattr(n, "get_type") and n.get_type() is not None else None
                    nodes.append({"k": pr["k"] if pr else "?" + type(n).__name__,
                                  "id": uri_segs(n.identifier.uri) if n.identifier is not None else [],
                                  "inf": getattr(n, "bundle", None) is None})
                edges = []
                for (u, v, data) in g.edges(data=True):
                    rel = data.get("relation")
                    edges.append({"s": uri_segs(u.identifier.uri), "d": uri_segs(v.identifier.uri),
                                  "rel": proj_record(rel, self.voc)})
                back = graph_to_prov(g)
                self.graph = {"src": roundtrip.proj_doc(doc, self.voc)}
                return {"nodes": nodes, "edges": edges, "back": roundtrip.proj_doc(back, self.voc)}
            return run
        if op == "Export":
            import exports
            doc = self.h[a["h"]]
            hist = self.hist_so_far[:]

            def run():
                # the twin (same calls, same export sequence) is built in a pristine process
                cold = exports.cold_exports(self.init, self.voc_seed, self.salt, hist, a["h"], a["seq"])
                return exports.run_exports(doc, cold, a["seq"])
            return run
        if op == "IO":
            import iokinds
            doc = sample_doc(Vocab(self.voc_seed, a["variant"]), a["variant"])
            voc = Vocab(self.voc_seed, a["variant"])

            def run():
                return iokinds.run_io(doc, a["fmt"], voc)
            return run
        if op == "Save":
            import fsfault
            doc = sample_doc(self.voc, self.salt % 6)
            fault = a["fault"][0] if a["fault"] else None

            def run():
                self.save = fsfault.run_save(doc, a["fmt"], a["name"], a["existing"], a["crossFs"], fault)
                return none
            return run
        if op == "CompareAll":
            objs = [self.h[x] for x in a["hs"]]

            def run():
                eq = [[bool(x == y) for y in objs] for x in objs]
                ne = [[bool(x != y) for y in objs] for x in objs]
                rec = []
                r1, r2 = objs[0].records[:4], objs[1].records[:4]
                for i, x in enumerate(r1):
                    for j, y in enumerate(r2):
                        rec.append({"i": i + 1, "j": j + 1, "eq": bool(x == y), "qe": bool(y == x),
                                    "hi": str(hash(x)), "hj": str(hash(y))})
                return {"eq": eq, "ne": ne, "rec": rec}
            return run
        c = self.h[a["h"]]
        if op == "Bundle":
            ident = self.name(a["id"])

            def run():
                self.h[a["out"]] = c.bundle(ident)
                return none
            return run
        if op == "Update":
            o = self.h[a["other"]]
            obs = [(self.handle_of(b), b.identifier) for b in o.bundles]
            before = list(c.bundles)

            def run():
                try:
                    c.update(o)
                finally:
                    if c.is_document():
                        for (bh, bid) in obs:
                            for nb in c.bundles:
                                # (a bundle object that already has a handle is aliased
                                # by the library; it gets the spec's handle as well)
                                if nb.identifier == bid and (a["h"] + "+" + bh) not in self.h \
                                        and all(nb is not x for x in before):
                                    self.h[a["h"] + "+" + bh] = nb
                return none
            return run
        if op == "AddBundle":
            arg = self.h[a["arg"]]
            ident = self.name(a["id"][0]) if a["id"] else None
            before = list(c.bundles)

            def run():
                self.den = None
                try:
                    c.add_bundle(arg, ident)
                finally:
                    for nb in c.bundles:
                        if nb is not arg and all(nb is not x for x in before):
                            self.h[a["out"]] = nb
                    if isinstance(ident, str) and arg.is_bundle():
                        # what the attached bundle makes of the requested spelling (its renamed-prefix
                        # map is private state the logged tables cannot show)
                        try:
                            q = arg.valid_qualified_name(ident)
                            self.den = uri_segs(q.uri) if q is not None else []
                        except Exception:
                            self.den = None
                return none
            return run
        if op in ("Flattened", "Unified", "DocFromRecs"):
            srcb = [(self.handle_of(b), b.identifier) for b in c.bundles]

            def run():
                if op == "Flattened":
                    r = c.flattened()
                elif op == "Unified":
                    r = c.unified()
                else:
                    r = ProvDocument(records=c.get_records())
                if r is not c or (op == "Flattened" and c.is_document() and c.has_bundles()):
                    # (a document with bundles is documented to get a NEW document: if the library hands
                    # back the same object it is registered under the new handle as well, so that a later
                    # change through either name shows in both)
                    self.h[a["out"]] = r
                    if op == "Unified" and r.is_document():
                        for (bh, bid) in srcb:
                            for nb in r.bundles:
                                if nb.identifier == bid and (a["out"] + "+" + bh) not in self.h:
                                    self.h[a["out"] + "+" + bh] = nb
                return none
            return run
        if op == "GetRecord":
            ident = self.name(a["id"])
            if a["id"]["rep"] == "uri" and self.salt % 2:
                ident = Identifier(ident)        # the full URI as an Identifier object instead of a string

            def run():
                got = c.get_record(ident)
                recs = c.records
                idx = []
                for g in (got or []):
                    hit = [i + 1 for i, r in enumerate(recs) if r is g]
                    idx += hit or [0]         # 0: a record that is not in this container
                q = c.valid_qualified_name(ident)
                self.den = uri_segs(q.uri) if q is not None else []
                return idx
            return run
        if op == "AddNs":
            p, u = a["p"], uri_text(a["u"])

            def run():
                ns = c.add_namespace(p, u)
                return {"ok": True, "p": ns.prefix, "ns": uri_segs(ns.uri), "l": []}
            return run
        if op == "SetDefault":
            u = uri_text(a["u"])
            self.asked_default[a["h"]] = list(a["u"])
            return const(lambda: c.set_default_namespace(u))
        if op == "ResQN":
            arg = QualifiedName(Namespace(a["p"], uri_text(a["ns"])), local_text(a["l"]))
        elif op == "ResStr":
            arg = self.str_form(a["str"])
        else:
            raise ValueError("unknown op %r" % (op,))
        h = a["h"]

        def run():
            r = c.valid_qualified_name(arg)
            if r is not None:
                self.handed.append((h, printed_form(r), uri_segs(r.uri), "qn" if op == "ResQN" else "str"))
            return proj_qn(r)
        return run

    def call(self, a):
        return self.prepare(a)()

    def note(self, a):
        self.hist_so_far.append(a)

    def peek(self):
        """Read-only exports of every live document / bundle (PROV-N text, record reprs).  Whatever
        they compute must not survive a later modification."""
        for c in list(self.h.values()):
            try:
                if not isinstance(c, Loose):
                    c.get_provn()
                for r in c.get_records():
                    r.get_provn()
                    repr(r)
            except Exception:
                pass

    def named_handles(self, a):
        hs = [a.get(k) for k in ("h", "arg", "other")] + list(a.get("hs", []))
        for k in ("r",):
            if isinstance(a.get(k), dict):
                hs.append(a[k].get("c"))
        return [h for h in hs if isinstance(h, str)]

    def prepare_total(self, a):
        """prepare(), total: a call on an object the specification says exists but the library never
        produced (a derived bundle that is missing, say) is recorded as the pseudo-exception
        NoSuchObject instead of stopping the replay."""
        missing = [h for h in self.named_handles(a) if h not in self.h]
        if missing:
            def run():
                raise NoSuchObject(missing[0])
            return run
        return self.prepare(a)

    def hold_typed(self):
        """get_records(cls) of every container, obtained now and consumed later (after the call of
        this step): the listing is of the records at the time it was asked for."""
        held = {}
        for h, c in self.h.items():
            pos = {id(r): i + 1 for i, r in enumerate(c.records)}
            held[h] = (pos, {k: c.get_records(cls) for k, cls in HELD_CLASSES.items()})
        return held

    @staticmethod
    def consume_typed(held):
        out = {}
        for h, (pos, lst) in held.items():
            out[h] = {}
            for k, it in lst.items():
                got = []
                for n, r in enumerate(it):
                    if n >= 200:        # a listing that follows a growing container never ends
                        got.append(0)
                        break
                    got.append(pos.get(id(r), 0))
                out[h][k] = got
        return out

    def step(self, a, want_pre):
        pre = self.observe() if want_pre else None
        exc = "none"
        thunk = self.prepare_total(a)
        held = self.hold_typed() if want_pre else None
        try:
            res = thunk()
        except Exception as e:  # recorded, judged by the clauses
            exc = exc_name(e)
            res = proj_qn(None)
        st = {"op": a, "exc": exc, "res": res, "post": self.observe(),
              "parents": self.parents, "reres": self.reres()}
        st["look"], st["typed"], st["copy"] = self.lookups()
        if a["op"] == "GetRecord" and exc == "none":
            st["den"] = self.den
        if a["op"] == "AddBundle" and getattr(self, "den", None) is not None:
            st["den"] = self.den
        if a["op"] == "RT":
            st.update(self.rt)
        if a["op"] in ("Graph", "Dot", "Load", "Corpus") and exc == "none":
            st.update(self.graph)
        if a["op"] == "Save":
            sv = self.save
            st["exc"] = sv["exc"]
            st["events"], st["final"], st["fired"] = sv["events"], sv["final"], sv["fired"]
        if pre is not None:
            st["pre"] = pre
            st["held"] = self.consume_typed(held)
        return st


def run_behaviour(tid, init, hist, frm, seed=0):
    """Replay `hist`; record observed steps for calls frm..len(hist)."""
    if any(a["op"] == "Export" for a in hist):
        import exports
        exports.ensure_zygote()       # before this process runs anything of this behaviour
        if os.environ.get("VERIF_WARMUP"):
            # replaying one behaviour alone: a finding that stems from state an EARLIER export left
            # behind in the process needs that history - run every exporter once on a scratch copy
            scratch = World(init, seed, tid)
            for a in hist:
                if a["op"] == "Export":
                    for ex in exports.ALL_EXPORTERS:
                        try:
                            exports.do_export(scratch.h[a["h"]], ex)
                        except Exception:
                            pass
                    break
                try:
                    scratch.prepare_total(a)()
                except Exception:
                    pass
    w = World(init, seed, tid)
    steps = []
    for i, a in enumerate(hist, start=1):
        if tid % 4 == 1:
            w.peek()          # a user who prints the documents between any two calls
        if i < frm:
            thunk = w.prepare_total(a)
            try:
                thunk()
            except Exception:
                pass
        else:
            steps.append(w.step(a, True))
        w.note(a)
    return {"tid": tid, "init": init, "hist": hist, "from": frm, "steps": steps}
