"""Driver: interprets behaviours (lists of calls produced by TLC or by
randdrive) against the REAL prov library and records, per call, what the
public API shows.  It makes no judgement (DESIGN 2.4)."""
import json
import sys

from prov.model import ProvDocument, ProvException
from prov.identifier import Namespace, QualifiedName, Identifier
import prov

from vocab import uri_text, local_text, uri_segs
from project import proj_ns, proj_qn, printed_form


def exc_name(e):
    if isinstance(e, ProvException):
        return "ProvException"
    if isinstance(e, prov.Error):
        return "Error:" + type(e).__name__
    return "other:" + type(e).__name__


class World(object):
    """Live objects of one behaviour, addressed by the spec's handle names."""

    def __init__(self, init):
        self.h = {}        # handle -> container
        self.parents = {}  # handle -> parent handle or ""
        self.handed = []   # (scope, printed form, uri segs)
        if init == "C03":
            doc = ProvDocument()
            self.h["doc"] = doc
            self.h["bun"] = doc.bundle("prov:bun")
            self.parents = {"doc": "", "bun": "doc"}
        else:
            raise ValueError("unknown init %r" % (init,))

    # ---- argument construction -------------------------------------
    @staticmethod
    def str_form(s):
        if s["k"] == "pl":
            return "%s:%s" % (s["p"], local_text(s["l"]))
        if s["k"] == "bare":
            return local_text(s["l"])
        if s["k"] == "uri":
            return uri_text(s["u"])
        raise ValueError(s)

    # ---- observation ------------------------------------------------
    def obs_ns(self):
        return {"ns": {k: proj_ns(c) for k, c in self.h.items()}}

    def reres(self):
        out = []
        for (s, form, uri) in self.handed:
            text = self.str_form(form)
            now = self.h[s].valid_qualified_name(text)
            par = self.parents[s]
            up = self.h[par].valid_qualified_name(text) if par else None
            out.append({"s": s, "str": form, "uri": uri,
                        "now": proj_qn(now), "up": proj_qn(up)})
        return out

    # ---- calls -------------------------------------------------------
    def call(self, a):
        op = a["op"]
        c = self.h[a["h"]]
        if op == "AddNs":
            ns = c.add_namespace(a["p"], uri_text(a["u"]))
            return {"ok": True, "p": ns.prefix, "ns": uri_segs(ns.uri), "l": []}
        if op == "SetDefault":
            c.set_default_namespace(uri_text(a["u"]))
            return proj_qn(None)
        if op == "ResQN":
            q = QualifiedName(Namespace(a["p"], uri_text(a["ns"])), local_text(a["l"]))
            r = c.valid_qualified_name(q)
        elif op == "ResStr":
            r = c.valid_qualified_name(self.str_form(a["str"]))
        else:
            raise ValueError("unknown op %r" % (op,))
        if r is not None:
            self.handed.append((a["h"], printed_form(r), uri_segs(r.uri)))
        return proj_qn(r)

    def step(self, a, want_pre):
        pre = self.obs_ns() if want_pre else None
        exc = "none"
        try:
            res = self.call(a)
        except Exception as e:  # recorded, judged by the clauses
            exc = exc_name(e)
            res = proj_qn(None)
        st = {"op": a, "exc": exc, "res": res, "post": self.obs_ns(),
              "parents": self.parents, "reres": self.reres()}
        if pre is not None:
            st["pre"] = pre
        return st


def run_behaviour(tid, init, hist, frm):
    """Replay `hist`; record observed steps for calls frm..len(hist)."""
    w = World(init)
    steps = []
    for i, a in enumerate(hist, start=1):
        if i < frm:
            try:
                w.call(a)
            except Exception:
                pass
        else:
            steps.append(w.step(a, True))
    return {"tid": tid, "init": init, "hist": hist, "from": frm, "steps": steps}
