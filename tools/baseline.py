#!/venv/bin/python
"""Runs the repository's pinned test command (guard off) and compares with
BASELINE.json's stable_pass list.  Exit 0 iff every stable_pass test passes."""
import json, subprocess, sys, tempfile, os
import xml.etree.ElementTree as ET
b = json.load(open("/root/.vp/BASELINE.json"))
fd, path = tempfile.mkstemp(suffix=".xml"); os.close(fd)
cmd = b["cmd"].replace("<file>", path)
if os.environ.get("REPO"):
    cmd = cmd.replace("cd /repo", "cd " + os.environ["REPO"])
env = dict(os.environ); env.pop("PROV_VERIF", None)
p = subprocess.run(cmd, shell=True, stdout=subprocess.PIPE, stderr=subprocess.STDOUT, env=env)
passed = set()
for tc in ET.parse(path).getroot().iter("testcase"):
    if not any(c.tag in ("failure", "error", "skipped") for c in tc):
        passed.add("%s::%s" % (tc.get("classname"), tc.get("name")))
os.remove(path)
want = set(b["stable_pass"])
missing = sorted(want - passed)
print("stable_pass: %d, passing now: %d, missing: %d" % (len(want), len(want & passed), len(missing)))
for m in missing[:20]:
    print("  NOT PASSING:", m)
sys.exit(1 if missing else 0)
