#!/bin/bash
# try_mutant.sh <patch.diff> <demo.py> <PROP> [tier]
# Applies the patch to a scratch worktree of /repo's HEAD (so background runs that use /repo are not
# disturbed), confirms the demo fails and the baseline still passes there, runs the check against the
# scratch tree (PYTHONPATH wins over /venv's editable install of /repo), and removes the worktree.
P=$(readlink -f $1); D=$(readlink -f $2); PROP=$3; TIER=${4:-quick}
W=/tmp/wt/M_$$
git -C /repo worktree add -q --detach $W HEAD || exit 2
trap 'git -C /repo worktree remove --force $W' EXIT
cd $W || exit 2
export PYTHONPATH=$W/src
echo "== clean demo:"; /venv/bin/python $D >/dev/null 2>&1; echo "  exit=$?"
git apply $P || { echo "patch does not apply"; exit 2; }
echo "== mutant demo:"; /venv/bin/python $D 2>&1 | tail -2; echo "  exit=${PIPESTATUS[0]}"
if [ -z "$SKIP_BASELINE" ]; then echo "== baseline:"; REPO=$W /venv/bin/python /verif/tools/baseline.py | head -3; fi
for PR in $PROP; do
echo "== check $PR:"; (cd /verif && VERIF_OUT=/tmp/wt/out_$$ ./check $PR --tier $TIER 2>&1 | grep -v "^KNOWN-FINDING" | tail -4 | cut -c1-260)
done
rm -rf /tmp/wt/out_$$
