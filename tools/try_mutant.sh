#!/bin/bash
# try_mutant.sh <patch.diff> <demo.py> <PROP> [tier]
# Applies the patch to /repo, confirms demo fails + baseline passes, runs the check, reverts.
P=$1; D=$2; PROP=$3; TIER=${4:-quick}
cd /repo || exit 2
git diff --quiet || { echo "repo dirty"; exit 2; }
echo "== clean demo:"; /venv/bin/python $D >/dev/null 2>&1; echo "  exit=$?"
git apply $P || { echo "patch does not apply"; exit 2; }
echo "== mutant demo:"; /venv/bin/python $D 2>&1 | tail -2; echo "  exit=${PIPESTATUS[0]}"
if [ -z "$SKIP_BASELINE" ]; then echo "== baseline:"; /venv/bin/python /verif/tools/baseline.py | head -3; fi
echo "== check $PROP:"; cd /verif && ./check $PROP --tier $TIER 2>&1 | grep -v "^KNOWN-FINDING" | tail -4 | cut -c1-200
git -C /repo checkout -- . ; git -C /repo status --short | head -2
