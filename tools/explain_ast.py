#!/venv/bin/python
"""explain_ast.py <replay.json> [seed]: replays a behaviour and prints the exported text + exc."""
import sys, json
sys.path.insert(0, '/verif/harness')
import drive
r = json.load(open(sys.argv[1]))
w = drive.World(r['init'], int(sys.argv[2]) if len(sys.argv) > 2 else 0, 1)
for a in r['hist'][:-1]:
    try: w.prepare(a)()
    except Exception as e: print("EXC in build", e)
last = r['hist'][-1]
print("CLAUSE", r['clause'], "LAST", last)
print("BUILD", json.dumps([{k: v for k, v in a.items() if k != 'via'} for a in r['hist'][2:-1]])[:900])
d = w.h[last['h']]
fmt = last.get('fmt', 'provn')
try:
    print(d.serialize(format=fmt)[:1500])
except Exception as e:
    print("serialize raised", repr(e))
