#!/venv/bin/python
"""explain_rt.py <replay.json>: replays a RT behaviour and prints the difference between src and back."""
import sys, json
sys.path.insert(0, '/verif/harness')
import drive
r = json.load(open(sys.argv[1]))
t = drive.run_behaviour(r.get('tid', 1), r['init'], r['hist'], len(r['hist']), r.get('seed', 0))
s = t['steps'][-1]
print("HIST", json.dumps([a for a in r['hist'] if a['op'] not in ('NewDoc',)])[:1500])
print("EXC", s['exc'], s.get('stage'), s.get('lexerr'))
def flat(d):
    out = [("", json.dumps(x, sort_keys=True)) for x in d['recs']]
    for b in d['bundles']:
        out += [(json.dumps(b['id']), json.dumps(x, sort_keys=True)) for x in b['recs']]
    return sorted(out)
a, b = flat(s['src']), flat(s['back'])
for x in a:
    if x not in b: print("  ONLY-SRC ", x)
for x in b:
    if x not in a: print("  ONLY-BACK", x)
