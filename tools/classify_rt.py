#!/venv/bin/python
"""classify_rt.py <PID>: groups the RT violations of the last run by a coarse signature."""
import sys, json, glob, collections
sys.path.insert(0, '/verif/harness')
import drive
pid = sys.argv[1]
groups = collections.defaultdict(list)
for f in sorted(glob.glob('/verif/out/replay/%s-*.json' % pid)):
    r = json.load(open(f))
    t = drive.run_behaviour(1, r['init'], r['hist'], len(r['hist']), 0)
    s = t['steps'][-1]
    def flat(d):
        out = [("", x) for x in d['recs']]
        for b in d['bundles']:
            out += [(json.dumps(b['id']), x) for x in b['recs']]
        return out
    a, b = flat(s.get('src', {'recs': [], 'bundles': []})), flat(s.get('back', {'recs': [], 'bundles': []}))
    ja = sorted(json.dumps(x, sort_keys=True) for x in a); jb = sorted(json.dumps(x, sort_keys=True) for x in b)
    onlya = [json.loads(x) for x in ja if x not in jb]; onlyb = [json.loads(x) for x in jb if x not in ja]
    sig = [r['clause'], s['exc']]
    for (c, x) in onlya[:2]:
        sig.append("src:%s:%s" % (x['k'], sorted(set(json.dumps(at['v'].get('t')) + ("/" + at['a'][-1] if at['a'][0] == 'prov#' else "") for at in x['attrs']))))
    for (c, x) in onlyb[:2]:
        sig.append("back:%s:%s" % (x['k'], sorted(set(json.dumps(at['v'].get('t')) + ("/" + at['a'][-1] if at['a'][0] == 'prov#' else "") for at in x['attrs']))))
    groups[json.dumps(sig)].append(f)
for k, v in sorted(groups.items(), key=lambda kv: -len(kv[1])):
    print(len(v), k[:300], v[0])
