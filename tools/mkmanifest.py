#!/venv/bin/python
"""Regenerates MANIFEST.json from the table below (kept next to the checks so
that it is always in step with what ./check implements)."""
import json
import os

VERIF = os.path.dirname(os.path.dirname(os.path.abspath(__file__)))
ids = [json.loads(l)["id"] for l in open(os.path.join(VERIF, "properties.jsonl"))]

CLAIMED = {
    "C03": dict(
        text="(A) TLC checks C03a/b/c exhaustively on the TLA+ transcription of NamespaceManager "
             "(document + bundle, all interleavings of add_namespace / set_default_namespace / "
             "valid_qualified_name, 4 calls quick / 5 thorough); (B) every transition of the "
             "3-call (4-call) model plus seeded random walks is replayed on the real library; "
             "(C) Trace.tla evaluates the same clauses on the recorded observations and compares "
             "the model state after every call (drift).",
        note="bounded: 3 prefixes, 3 namespace URIs (two nested), 2 locals, 2 scopes; trusted: TLC, "
             "harness/project.py, vocab.py. Known finding KF-C03-shadow is excluded by a narrow predicate.",
        technique="TLA+ model of NamespaceManager, TLC exhaustive + TLC-generated behaviours replayed "
                  "on the code + trace validation in TLC",
        ref="3 C03"),
}

NA_REASON = "check not built yet (work in progress, see DESIGN.md section 6)"

checks = []
for i in ids:
    if i in CLAIMED:
        c = CLAIMED[i]
        checks.append({
            "property_id": i,
            "quick_cmd": "./check %s --tier quick" % i,
            "thorough_cmd": "./check %s --tier thorough" % i,
            "evidence_file": "evidence/%s.json" % i,
            "replay_cmd_template": "./check %s --replay {path}" % i,
            "engine": "tla-trace",
            "level_claimed": {"category": "model_checking", "text": c["text"],
                              "design_ref": c["ref"]},
            "level_note": c["note"],
            "technique": c["technique"],
        })
m = {
    "version": 1,
    "setup_cmd": "mkdir -p out evidence",
    "hooks": {"guard": "PROV_VERIF",
              "enable": "no hooks: the checks import the working tree through /venv's editable install of /repo "
                        "(or PROV_SRC on PYTHONPATH); the guard name is reserved and unused",
              "baseline_off_cmd": "cd /repo && /venv/bin/python -m pytest -ra -q -p no:cacheprovider --timeout=900 --continue-on-collection-errors",
              "source_commits": [], "add_only": True},
    "engines": [{"name": "tla-trace", "path": "check",
                 "serves_properties": sorted(CLAIMED),
                 "kind_free_text": "TLA+ spec (spec/*.tla) + TLC: exhaustive model checking, TLC-generated "
                                   "behaviours replayed on the real library (harness/drive.py), trace validation "
                                   "of the recorded observations by TLC (spec/Trace.tla)"}],
    "checks": checks,
    "notes": "see DESIGN.md",
    "not_applicable": [{"property_id": i, "reason": NA_REASON} for i in ids if i not in CLAIMED],
}
json.dump(m, open(os.path.join(VERIF, "MANIFEST.json"), "w"), indent=1)
print("claimed:", sorted(CLAIMED))
