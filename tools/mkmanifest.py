#!/venv/bin/python
"""Regenerates MANIFEST.json from the table below (kept next to the checks so
that it is always in step with what ./check implements)."""
import json
import os

VERIF = os.path.dirname(os.path.dirname(os.path.abspath(__file__)))
ids = [json.loads(l)["id"] for l in open(os.path.join(VERIF, "properties.jsonl"))]

TECH = ("TLA+ model of the library (spec/*.tla): TLC exhaustive on the model + TLC-generated behaviours "
        "replayed on the code + trace validation of the recorded observations in TLC")
TRUST = ("bounded model (sizes in the evidence file); trusted: TLC, harness/project.py + vocab.py (projection "
         "through the public API), the driver's mapping of spec calls to API calls")
CLAIMED = {
    "C03": dict(
        text="(A) TLC checks C03a/b/c exhaustively on the TLA+ transcription of NamespaceManager "
             "(document + bundle, all interleavings of add_namespace / set_default_namespace / "
             "valid_qualified_name, 4 calls quick / 5 thorough); (B) every transition of the "
             "3-call (4-call) model plus seeded random walks is replayed on the real library; "
             "(C) Trace.tla evaluates the same clauses on the recorded observations and compares "
             "the model state after every call (drift).",
        note=TRUST + ". Known finding KF-C03-shadow is excluded by a narrow predicate.",
        ref="3 C03"),
    "C05": dict(
        text="(A) MC_C05: every record kind x construction scheme (masks, representations) x up to 2 follow-up "
             "calls (add_attributes dict/pairs, set_time, add_asserted_type) with same/different values; the C05 "
             "clauses hold on the model; (B) all transitions + seeded walks replayed; (C) clauses C05_single, "
             "_typed, _refuse, _idem, _accumulate, _new evaluated by TLC on the logged records.",
        note=TRUST + ". Known finding KF-C05-settime-replace (set_time overwrites) excluded by predicate.",
        ref="3 C05"),
    "C18": dict(
        text="(A) IndexCoherent (idmap = scan of records) is an invariant of MC_Con over every insertion path "
             "(new_record, add_record, update, add_bundle, constructor, unified, flattened); (B)+(C) after every "
             "replayed call the driver queries get_record in every string spelling, get_records for every class "
             "and the records copy, and TLC compares them with a scan of the logged record list; QualifiedName "
             "spellings are explicit GetRecord calls of the model.",
        note=TRUST, ref="3 C18"),
    "C09": dict(
        text="(A)+(B) MC_Con scenario c09: two documents with clashing prefixes and different default namespaces at "
             "document and bundle level, a bundle sharing an identifier, sequences of update / add_bundle / "
             "bundle() / flattened(); (C) bag conservation and refusal clauses on the logged projections.",
        note=TRUST, ref="3 C09"),
    "C08": dict(
        text="(A)+(B) MC_Con scenario c08: one identifier on several records of the same / different kinds with "
             "overlapping, disjoint and conflicting attributes, in a document and in its bundle; unified() on both "
             "and on results; (C) result = UnifiedSpec(source) (written from the statement), conflict => "
             "ProvException, exception => conflict, source unchanged.",
        note=TRUST + ". Known finding KF-unified-registers excluded by predicate.",
        ref="3 C08"),
    "C12": dict(
        text="(A)+(B) MC_Con scenario c12: each deriving operation followed by mutators on either side; (C) frame "
             "condition on ALL live handles after every call: whatever the call does not own has the same content, "
             "registered namespaces and default namespace as before.",
        note=TRUST + ". record.copy() is not yet driven. Known finding KF-unified-registers excluded by predicate.",
        ref="3 C12"),
    "C04": dict(
        text="(A) Eq.tla (transcription of ProvRecord/ProvBundle/ProvDocument.__eq__) is reflexive, symmetric, "
             "transitive and equals content equivalence on every triple of documents reachable in MC_Con scenario "
             "c04 (prefix variants, single value changes, type swap, anonymous vs identified relations, duplicates, "
             "bundles; 4-5 calls); (B)+(C) the same triples built on the real library, all pairwise ==, != and record "
             "hashes logged and judged by TLC against ContentEquiv of the logged projections.",
        note=TRUST + ". scripts/prov-compare and serialisation round trips as transformations are not yet driven.",
        ref="3 C04"),
    "C17": dict(
        text="(A) MC_FS: the write-then-move protocol of serialize(destination=path) (FS.tla) keeps the named file "
             "absent/old/complete-new in EVERY state and is exact on success, for every crash point x pre-existing file "
             "x other-file-system temp dir x 10 file-name classes (the original protocol variant is checked to fail); "
             "(B) one Save call per configuration x crash point (k-th write with 0/half/all-but-one bytes, the move) "
             "generated by TLC and run under fsfault.py (stdlib entry points patched, directory snapshot at every "
             "step); (C) TLC judges the snapshots (C17_atomic/exact/keep/propagate) and validates the event sequence "
             "as a run of FS.tla.",
        note=TRUST + ". A write route that bypasses the patched stdlib entry points would not be observed.",
        ref="3 C17"),
    "C16": dict(
        text="(A) IO.tla: stream-position machine of deserialize and of the prov.read detection loop; TLC evaluates that "
             "the repaired (buffered) loop returns the document for every readable format x source kind and the original "
             "loop does not; (B)+(C) per format x document variant the driver writes to all 4 destination kinds, reads "
             "back through all 5 source kinds and through prov.read (explicit / detected) and TLC compares the equality "
             "bits and projection digests, and binds each outcome class to the IO machine.",
        note=TRUST + ". Documents are 6 sample variants with seeded non-ASCII values, not the whole C01 space; XML texts "
             "compared by canonical form, RDF texts by graph isomorphism.",
        ref="3 C16"),
    "C01": dict(
        text="(A)+(B) MC_Ser: documents built through the API — every record kind x every subset of optional formal "
             "arguments x identified/anonymous, every attribute class x value kind (incl. multi-valued, qualified names "
             "and literal datatypes under unregistered prefixes), repeated identifiers, bundles, and namespace histories "
             "on document and bundle (clashing prefixes, defaults at both levels) — each written as PROV-JSON under the "
             "json.dump option sets and read back; (C) TLC compares the strict projections as bags per container "
             "(URI level, kind aware).",
        note=TRUST + ". No TLA+ transcription of the JSON encoder/decoder yet: the model-level part is the document "
             "space and the clauses; string escaping / number formatting are sampled through seeded value pools. "
             "Known finding KF-C03-shadow excluded by predicate.",
        ref="3 C01"),
    "C10": dict(
        text="The PROV-JSON text the library writes for every MC_Ser document is lexed by stdlib json and read by "
             "SpecJson.tla, a reader written in TLA+ from the PROV-JSON submission (own key tables, no code shared with "
             "the library); TLC checks structural well-formedness (WfJSON) and that the reader recovers the source "
             "content (bags, URI level).  Likewise for PROV-XML: expat lexer + SpecXml.tla (reader from the PROV-XML "
             "note and schema: subtype elements, prov:id / prov:ref QNames through in-scope bindings, xsi:type, "
             "xml:lang, schema child order in WfXML).",
        note=TRUST + ". The readers are as good as my reading of the two specifications. Known finding "
             "KF-C03-shadow excluded by predicate.",
        ref="3 C10"),
    "C02": dict(
        text="As C01 for PROV-XML, for force_types in {False, True}; the document space is restricted to "
             "XML-expressible documents as the property states (prov:label plain or language-tagged).",
        note=TRUST + ". No TLA+ transcription of the XML encoder/decoder yet (the xsi:type table is exercised "
             "through every attribute class x value kind). Known finding KF-C03-shadow excluded by predicate.",
        ref="3 C02"),
    "C06": dict(
        text="The text of get_provn() for every MC_Ser document is parsed by an independent parser of the W3C grammar "
             "(harness/lex_provn.py: tokens, escapes, generic expression syntax) and read by SpecProvN.tla, which "
             "decides arity, argument positions, where '-' may stand, whether an identifier / attribute list is "
             "allowed, literal denotation and name resolution through the printed declarations; TLC compares the "
             "result with the source projection (bags, URI level).",
        note=TRUST + ". Grammar membership below expression level is decided by my parser. Known findings "
             "KF-C06-noid and KF-C03-shadow excluded by predicates.",
        ref="3 C06"),
    "C13": dict(
        text="(A)+(B) MC_Ser documents (records with repeated identifiers, bundles, namespace histories) followed by "
             "every ordered pair (and a triple repetition) of exporters (json, xml, provn, rdf, dot, graph, unified, "
             "flattened, ==, hash; more option variants in thorough); (C) C13_pure = frame condition on all live handles "
             "(content, record order, registered and default namespaces), C13_repeat against the previous call of the "
             "same exporter, C13_twin against a twin document built by the same calls; the model (DoExport) predicts "
             "the state after the export (zero drift).",
        note=TRUST + ". Text equality is decided in the harness (RDF by graph isomorphism). Known finding "
             "KF-unified-registers excluded by predicate.",
        ref="3 C13"),
    "C14": dict(
        text="(A)+(B) MC_Ser mode graph: bundle-free documents of 3-4 records from a menu of declared / undeclared "
             "endpoints, repeated identifiers (entity+agent), parallel relations, self-loops, relations lacking an "
             "endpoint, n-ary relations; (C) prov_to_graph's nodes (kind, id, inferred?) and edges (endpoints, "
             "relation) and graph_to_prov's content are compared by TLC with GraphOf / UnifiedSpec written in TLA+ "
             "from the statement.",
        note=TRUST + ". Nodes and edges are read through networkx's public API.",
        ref="3 C14"),
    "C15": dict(
        text="(A)+(B) MC_Ser documents (graph mode: n-ary relations, undeclared endpoints, missing arguments, repeated "
             "identifiers, labels and values from the quoting-hazard / markup pools; shapes mode with bundles) x all 16 "
             "combinations of the display options x directions (incl. an invalid one); (C) Graphviz itself "
             "(dot -Tdot_json, dot -Tsvg) parses and renders the emitted text and TLC compares the structure "
             "(element nodes per cluster, generic nodes, one path per relation through a blank node when n-ary or "
             "annotated, annotation rows, clusters, rankdir, rendered label text) with DotOf written in TLA+ from the "
             "statement.",
        note=TRUST + ". Graphviz 2.43 is the acceptance oracle and the DOT parser; annotation VALUE texts are not "
             "compared; quick samples the document x option product.",
        ref="3 C15"),
    "C07": dict(
        text="(A)+(B) MC_Ser mode rdf generates the PROV-O expressible space as the property states it (every kind but "
             "mention x masks with the first two formal arguments x identified/anonymous x attribute class x claimed "
             "value kinds, anonymous 'simple' relations bare, a second record / a non-empty bundle); each document is "
             "written as TriG and read back; (C) TLC compares per container the SET of records read back with "
             "UnifiedSpec(source) (written in TLA+ from the statement) and checks that no relation comes back twice.",
        note=TRUST + ". No TLA+ model of the PROV-O encoder/decoder: the specification contributes the input space, "
             "UnifiedSpec and the clauses, the verdict comes from the executed round trip. Known finding "
             "KF-C07-alternate-id excluded by predicate.",
        ref="3 C07"),
    "C11": dict(
        text="(1) MC_Ser documents are rendered by a specification-driven generator (harness/foreign.py, sharing no code "
             "with the library's writers) under 17 spelling flag sets enumerated by TLC (values wrapped in arrays, record "
             "arrays, every int/bool/string/float/qualified-name spelling, bundle-level prefix blocks, reversed keys, "
             "subtype XML elements, comments), loaded, re-written, re-loaded and cross-converted; (2) the 398 JSON + 45 "
             "XML ProvToolbox corpus files with single-point mutations (reorder keys, wrap value, record array, rename "
             "prefix, copy prefix block into bundles) enumerated by MC_Corpus; (C) TLC judges stability, cross-format "
             "equality, faithfulness (nothing dropped or invented, exact content for normalised spellings), preservation "
             "under mutation and the error class of refused texts.",
        note=TRUST + ". The generator and the mutations are Python; TLC enumerates flag sets / (file, mutation) pairs and "
             "judges projections. Quick samples one mutation per corpus file. Known finding KF-C11-multimember excluded "
             "by predicate.",
        ref="3 C11"),
}
for _c in CLAIMED.values():
    _c.setdefault("technique", TECH)

NA_REASON = "check not built yet (work in progress, see DESIGN.md section 6)"

checks = []
for i in ids:
    if i in CLAIMED:
        c = CLAIMED[i]
        checks.append({
            "property_id": i,
            "quick_cmd": "./check %s --tier quick" % i,
            "thorough_cmd": "./check %s --tier thorough" % i,
            "evidence_file": "evidence/%s.json" % i,
            "replay_cmd_template": "./check %s --replay {path}" % i,
            "engine": "tla-trace",
            "level_claimed": {"category": "model_checking", "text": c["text"],
                              "design_ref": c["ref"]},
            "level_note": c["note"],
            "technique": c["technique"],
        })
m = {
    "version": 1,
    "setup_cmd": "mkdir -p out evidence",
    "hooks": {"guard": "PROV_VERIF",
              "enable": "no hooks: the checks import the working tree through /venv's editable install of /repo "
                        "(or PROV_SRC on PYTHONPATH); the guard name is reserved and unused",
              "baseline_off_cmd": "cd /repo && /venv/bin/python -m pytest -ra -q -p no:cacheprovider --timeout=900 --continue-on-collection-errors",
              "source_commits": [], "add_only": True},
    "engines": [{"name": "tla-trace", "path": "check",
                 "serves_properties": sorted(CLAIMED),
                 "kind_free_text": "TLA+ spec (spec/*.tla) + TLC: exhaustive model checking, TLC-generated "
                                   "behaviours replayed on the real library (harness/drive.py), trace validation "
                                   "of the recorded observations by TLC (spec/Trace.tla)"}],
    "checks": checks,
    "notes": "see DESIGN.md",
    "not_applicable": [{"property_id": i, "reason": NA_REASON} for i in ids if i not in CLAIMED],
}
json.dump(m, open(os.path.join(VERIF, "MANIFEST.json"), "w"), indent=1)
print("claimed:", sorted(CLAIMED))
