#!/bin/bash
# run_benign.sh [id ...]: every stored property-preserving change (benign/<id>/patch.diff) against the checks
# listed in its meta.json; each line must be PASS.
cd /verif
for d in ${@:-$(ls benign)}; do
  ck=$(/venv/bin/python -c "import json;print(' '.join(json.load(open('benign/$d/meta.json'))['checks_run']))")
  SKIP_BASELINE=1 tools/try_benign.sh benign/$d/patch.diff "$ck" | sed "s|^patch.diff|$d|"
done
