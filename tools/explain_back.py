#!/venv/bin/python
"""explain_back.py <hist.json | replay.json>: replays a behaviour ending in RT json, then lets TLC print what
the reader transcription (ProvJson.DecJ) makes of the writer model's output next to the observed `back`."""
import sys, json, os, subprocess
sys.path.insert(0, '/verif/harness')
os.environ.setdefault("PYTHONHASHSEED", "0")
import drive, tlcrun
r = json.load(open(sys.argv[1]))
hist = r['hist'] if isinstance(r, dict) else r
init = r.get('init', 'empty') if isinstance(r, dict) else 'empty'
t = drive.run_behaviour(r.get('tid', 1) if isinstance(r, dict) else 1, init, hist, len(hist), r.get('seed', 0) if isinstance(r, dict) else 0)
d = '/tmp/probe/dbg'
json.dump({"traces": [t]}, open(d + '/trace.json', 'w'))
open(d + '/Dbg.tla', 'w').write('''---- MODULE Dbg ----
EXTENDS KnownFindings, Json, IOUtils
T == JsonDeserialize(IOEnv.TRACE_FILE).traces[1]
MsPost == RunF(InitMs(T.init), T.hist, Len(T.hist))
Step == T.steps[Len(T.steps)]
R == DecJ(EncAJ(MsPost, Step.op.h))
ASSUME PrintT(<<"EXC", R.exc, Step.exc>>)
ASSUME PrintT(<<"MODEL", RdOf(R.st, RH)>>)
ASSUME PrintT(<<"OBS", Step.back>>)
VARIABLE x
Spec == x = 0 /\\ [][x' = x]_x
====
''')
open(d + '/Dbg.cfg', 'w').write("SPECIFICATION Spec\n")
for f in os.listdir('/verif/spec'):
    if f.endswith('.tla'):
        if not os.path.exists(d + '/' + f): os.symlink('/verif/spec/' + f, d + '/' + f)
env = dict(os.environ, TRACE_FILE=d + '/trace.json')
p = subprocess.run(["java", "-cp", tlcrun.JAR, "tlc2.TLC", "-metadir", d + "/meta", "-config", "Dbg.cfg", "Dbg.tla"], cwd=d, env=env,
                   stdout=subprocess.PIPE, stderr=subprocess.STDOUT)
out = p.stdout.decode()
i = out.find('<<"EXC"')
print(out[i:i + 6000] if i >= 0 else out[-3000:])
