#!/bin/bash
# try_benign.sh <patch.diff> "<PROP PROP ...>"   (default: all 18)
# A property-preserving change: applied in a scratch worktree of /repo's HEAD, baseline confirmed,
# the listed checks must all PASS (exit 0, no VIOLATION line).  Prints one line per check.
P=$(readlink -f $1); PROPS=${2:-"C01 C02 C03 C04 C05 C06 C07 C08 C09 C10 C11 C12 C13 C14 C15 C16 C17 C18"}
W=/tmp/wt/B_$$
git -C /repo worktree add -q --detach $W HEAD || exit 2
trap 'git -C /repo worktree remove --force $W; rm -rf /tmp/wt/outb_$$' EXIT
cd $W || exit 2
git apply $P || { echo "patch does not apply"; exit 2; }
export PYTHONPATH=$W/src
if [ -z "$SKIP_BASELINE" ]; then echo "baseline: $(REPO=$W /venv/bin/python /verif/tools/baseline.py | head -1)"; fi
for PR in $PROPS; do
  (cd /verif && VERIF_OUT=/tmp/wt/outb_$$ ./check $PR 2>&1 | grep -v "^KNOWN-FINDING" | grep "^PASS\|^FAIL\|^VIOLATION\|^MACHINERY\|^DRIFT" | cut -c1-330 | sed "s|^|$(basename $P) |")
done
