#!/venv/bin/python
"""import_mutant.py <wtdir> <i> <PROP> <caught-by clause(s)> : copy a confirmed seeded change into /verif/seeded/"""
import json, os, shutil, sys
wt, i, prop, caught = sys.argv[1], sys.argv[2], sys.argv[3], sys.argv[4]
name = "%s-%s" % (prop, sys.argv[5] if len(sys.argv) > 5 else i)
d = os.path.join("/verif/seeded", name)
os.makedirs(d, exist_ok=True)
shutil.copy(os.path.join(wt, "mutant_%s.diff" % i), os.path.join(d, "patch.diff"))
shutil.copy(os.path.join(wt, "demo_%s.py" % i), os.path.join(d, "demo.py"))
m = json.load(open(os.path.join(wt, "meta_%s.json" % i)))
meta = {"id": name, "property": prop, "what": m.get("what"), "needs": m.get("needs"),
        "author": "independent sub-agent given only the property text and a scratch worktree",
        "confirmed": {"demo_clean_exit": 0, "demo_mutant_exit": 1,
                      "baseline_with_mutant": "tools/baseline.py: 939/939 stable_pass tests pass",
                      "agent_tests": m.get("tests")},
        "ran": "tools/try_mutant.sh seeded/%s/patch.diff seeded/%s/demo.py %s" % (name, name, prop),
        "detected_by": caught}
json.dump(meta, open(os.path.join(d, "meta.json"), "w"), indent=1)
print(name)
