------------------------------- MODULE ProvNW -------------------------------
(***************************************************************************)
(* The PROV-N printer of the library (ProvBundle.get_provn,                *)
(* ProvRecord.get_provn, encoding_provn_value, provn_representation)       *)
(* transcribed over the model state, in the AST shape of lex_provn.py      *)
(* (attribute lists as sets, literals reduced to what they carry).         *)
(* M_ProvN compares it with the parsed text the library really printed.    *)
(***************************************************************************)
EXTENDS ProvJson

PNameOf == [ entity |-> "entity", activity |-> "activity", agent |-> "agent",
             generation |-> "wasGeneratedBy", usage |-> "used", communication |-> "wasInformedBy",
             start |-> "wasStartedBy", end |-> "wasEndedBy", invalidation |-> "wasInvalidatedBy",
             derivation |-> "wasDerivedFrom", attribution |-> "wasAttributedTo",
             association |-> "wasAssociatedWith", delegation |-> "actedOnBehalfOf",
             influence |-> "wasInfluencedBy", specialization |-> "specializationOf",
             alternate |-> "alternateOf", mention |-> "mentionOf", membership |-> "hadMember" ]
XsdN(l) == [p |-> "xsd", l |-> <<l>>]
IsoMark == [p |-> "?isostr", l |-> <<>>]     \* not a datatype: a plain string that looks like a time
StrLit(payload, dt, lang) == [l |-> "str", pay |-> payload, dt |-> dt, lang |-> lang]
(* encoding_provn_value / provn_representation *)
PNLitOf(v) ==
  CASE v.t = "str"    -> StrLit(v.v, <<>>, "")
    [] v.t = "isostr" -> StrLit(v.v, <<IsoMark>>, "")
    [] v.t = "int"    -> [l |-> "int", v |-> v.v]
    [] v.t = "float"  -> StrLit(v.v, <<XsdN("double")>>, "")
    [] v.t = "bool"   -> StrLit(v.v, <<XsdN("boolean")>>, "")
    [] v.t = "dt"     -> StrLit(v.v, <<XsdN("dateTime")>>, "")
    [] v.t = "uri"    -> StrLit(v.u, <<XsdN("anyURI")>>, "")
    [] v.t = "qn"     -> [l |-> "qn", qn |-> PL(v.q)]
    [] v.t = "lang"   -> StrLit(v.v, <<>>, v.lang)
    [] v.t = "lit"    -> StrLit(v.v, <<PL(v.dt)>>, "")
PNArgOf(rec, f) ==
  LET vs == ValuesOf(rec, <<"prov#", f>>) IN
  IF vs = {} THEN [a |-> "marker"]
  ELSE LET v == CHOOSE x \in vs : TRUE IN
       IF f \in TimeAttrs THEN [a |-> "time", iso |-> v.v] ELSE [a |-> "name", qn |-> PL(v.q)]
PNExprOf(rec) ==
  LET fs == Formals[rec.k]
      fargs == [i \in 1..Len(fs) |-> PNArgOf(rec, fs[i])]
      extra == {x \in rec.attrs : ~(\E i \in 1..Len(fs) : Uri(x.a) = <<"prov#", fs[i]>>)}
      el == rec.k \in Elements
  IN [name |-> PNameOf[rec.k],
      hasid |-> ~el /\ rec.id.ok,
      id |-> IF ~el /\ rec.id.ok THEN <<PL(rec.id)>> ELSE <<>>,
      args |-> IF el THEN <<[a |-> "name", qn |-> PL(rec.id)]>> \o fargs ELSE fargs,
      hasattrs |-> extra # {},
      attrs |-> {<<PL(x.a), PNLitOf(x.v)>> : x \in extra}]
PNDecls(st) == [dflt |-> st.dflt, pfx |-> st.reg]
PNContainer(ms, h) ==
  [decls |-> PNDecls(ms.mgr[ms.con[h].mgr]),
   exprs |-> [i \in 1..Len(ms.con[h].recs) |-> PNExprOf(ms.con[h].recs[i])]]
EncPN(ms, h) ==
  LET top == PNContainer(ms, h) IN
  [decls |-> top.decls, exprs |-> top.exprs,
   bundles |-> [i \in 1..Len(ms.con[h].bundles) |->
                  LET b == ms.con[h].bundles[i]
                      c == PNContainer(ms, b)
                  IN [id |-> PL(ms.con[b].id), decls |-> c.decls, exprs |-> c.exprs]]]

(* the parsed text in the same reduced form *)
AbsPNLit(l) ==
  CASE l.l = "int" -> [l |-> "int", v |-> l.v]
    [] l.l = "qn"  -> [l |-> "qn", qn |-> l.qn]
    [] l.l = "str" ->
         LET dt == IF l.dt = <<>> THEN [p |-> "", l |-> <<>>] ELSE l.dt[1]
             pay == IF dt = XsdN("dateTime") THEN l.s.iso
                    ELSE IF dt = XsdN("double") THEN l.s.flt
                    ELSE IF dt = XsdN("boolean") THEN l.s.bool
                    ELSE IF dt = XsdN("anyURI") THEN l.s.uri
                    ELSE IF l.dt = <<>> /\ l.lang = "" /\ l.s.iso # "" /\ l.s.v \notin {"s1", "s2", "e", "nq"} THEN l.s.iso
                    ELSE l.s.v
         IN StrLit(pay, IF l.dt = <<>> /\ l.lang = "" /\ l.s.iso # "" /\ l.s.v \notin {"s1", "s2", "e", "nq"}
                        THEN <<IsoMark>> ELSE l.dt, l.lang)
AbsPNExpr(e) == [name |-> e.name, hasid |-> e.hasid, id |-> e.id, args |-> e.args, hasattrs |-> e.hasattrs,
                 attrs |-> {<<e.attrs[i][1], AbsPNLit(e.attrs[i][2])>> : i \in 1..Len(e.attrs)}]
AbsPN(ast) ==
  [decls |-> ast.decls, exprs |-> [i \in 1..Len(ast.exprs) |-> AbsPNExpr(ast.exprs[i])],
   bundles |-> [b \in 1..Len(ast.bundles) |->
                  [id |-> ast.bundles[b].id, decls |-> ast.bundles[b].decls,
                   exprs |-> [i \in 1..Len(ast.bundles[b].exprs) |-> AbsPNExpr(ast.bundles[b].exprs[i])]]]]
=============================================================================
