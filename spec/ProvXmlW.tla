------------------------------ MODULE ProvXmlW ------------------------------
(***************************************************************************)
(* The PROV-XML writer of the library (serializers/provxml.py:             *)
(* serialize_bundle incl. the xsi:type inference, _derive_record_label)    *)
(* transcribed over the model state, in an abstract XML form AX:           *)
(*   container = [ns: set of <<prefix, URI>> in scope ("" = default),      *)
(*                recs: Seq([name: element local name, id: [p,l] | NONE,   *)
(*                           kids: set of kid])]                           *)
(*   kid = [tag: <<namespace URI, local segments>>, ref: [p,l] | NONE,     *)
(*          xt: [p,l] | NONE (xsi:type), lang: STRING, text: payload]      *)
(*   payload = [k: "none"] | [k: "tok", v] | [k: "iso", v] | [k: "num", v] *)
(*           | [k: "bool", v] | [k: "uri", u] | [k: "name", p, l]          *)
(* The order of the children is decided by sorted_attributes on concrete    *)
(* strings and is not modelled (WfXML checks the schema order on the text). *)
(* AbsX maps the lexed text to the same form; M_Xml compares; ReadAX reads  *)
(* AX as the PROV-XML note says (model-level check XmlDenotes).             *)
(***************************************************************************)
EXTENDS ProvNW, SpecXml

NoneN == <<>>
N1(p, l) == <<[p |-> p, l |-> l]>>
XsdNoHash == <<"xsd">>
SubtypeBase == [ Revision |-> "derivation", Quotation |-> "derivation", PrimarySource |-> "derivation",
                 SoftwareAgent |-> "agent", Person |-> "agent", Organization |-> "agent",
                 Plan |-> "entity", Collection |-> "entity", EmptyCollection |-> "entity", Bundle |-> "entity" ]
SubtypeLabel == [ Revision |-> "wasRevisionOf", Quotation |-> "wasQuotedFrom", PrimarySource |-> "hadPrimarySource",
                  SoftwareAgent |-> "softwareAgent", Person |-> "person", Organization |-> "organization",
                  Plan |-> "plan", Collection |-> "collection", EmptyCollection |-> "emptyCollection",
                  Bundle |-> "bundle" ]
IsSubtypeOf(v, k) == v.t = "qn" /\ Len(Uri(v.q)) = 2 /\ Uri(v.q)[1] = "prov#" /\ Uri(v.q)[2] \in DOMAIN SubtypeBase
                     /\ SubtypeBase[Uri(v.q)[2]] = k
ProvLocal(q) == IF Len(Uri(q)) = 2 /\ Uri(q)[1] = "prov#" THEN Uri(q)[2] ELSE ""

(* the text / payload a value is written with *)
XText(v) ==
  CASE v.t \in {"str", "lang", "lit"} -> [k |-> "tok", v |-> v.v]
    [] v.t = "isostr" -> [k |-> "iso", v |-> v.v]
    [] v.t = "dt"     -> [k |-> "iso", v |-> v.v]
    [] v.t \in {"int", "float"} -> [k |-> "num", v |-> v.v]
    [] v.t = "bool"   -> [k |-> "bool", v |-> v.v]
    [] v.t = "uri"    -> [k |-> "uri", u |-> v.u]
    [] v.t = "qn"     -> [k |-> "name", p |-> v.q.p, l |-> v.q.l]
(* xsi:type: explicit for Literal datatypes and qualified-name values, else inferred *)
XType(a, v, force) ==
  LET pl == ProvLocal(a)
      explicit == IF v.t = "lit" THEN N1(v.dt.p, v.dt.l)
                  ELSE IF v.t = "qn" /\ ~IsRefAttr(a) THEN N1("xsd", <<"QName">>)
                  ELSE NoneN
      always == v.t \in {"bool", "dt", "float", "int", "uri"}
      consider == /\ (force \/ always \/ pl \in {"type", "location", "value"})
                  /\ explicit = NoneN
                  /\ ~IsRefAttr(a)
                  /\ pl \notin {"time", "label"}
      inferred == CASE v.t = "bool"  -> N1("xsd", <<"boolean">>)
                    [] v.t \in {"str", "isostr"} -> N1("xsd", <<"string">>)
                    [] v.t = "float" -> N1("xsd", <<"double">>)
                    [] v.t = "int"   -> N1("xsd", <<"int">>)
                    [] v.t = "dt"    -> IF a.p = "prov" /\ pl \in {"time", "startTime", "endTime"} THEN NoneN
                                        ELSE N1("xsd", <<"dateTime">>)
                    [] v.t = "uri"   -> N1("xsd", <<"anyURI">>)
                    [] OTHER         -> NoneN
  IN IF explicit # NoneN THEN explicit ELSE IF consider THEN inferred ELSE NoneN
XKid(a, v, force) ==
  IF IsRefAttr(a)
  THEN [tag |-> <<a.ns, a.l>>, ref |-> N1(v.q.p, v.q.l), xt |-> NoneN, lang |-> "", text |-> [k |-> "none"]]
  ELSE [tag |-> <<a.ns, a.l>>, ref |-> NoneN, xt |-> XType(a, v, force),
        lang |-> IF v.t = "lang" THEN v.lang ELSE "",
        text |-> IF v.t \in {"str", "lang", "lit"} /\ v.v = "e" THEN [k |-> "none"] ELSE XText(v)]
(* which of several subtype prov:type values becomes the element name depends on the iteration   *)
(* order of a Python set: the observed element name (hint) resolves the choice                   *)
XRecOf(rec, force, hint) ==
  LET subs == {x \in rec.attrs : Uri(x.a) = <<"prov#", "type">> /\ IsSubtypeOf(x.v, rec.k)}
      hinted == {x \in subs : SubtypeLabel[Uri(x.v.q)[2]] = hint}
      used == IF subs = {} THEN {} ELSE IF hinted # {} THEN {CHOOSE x \in hinted : TRUE} ELSE {CHOOSE x \in subs : TRUE}
      label == IF used = {} THEN PNameOf[rec.k] ELSE SubtypeLabel[Uri((CHOOSE x \in used : TRUE).v.q)[2]]
  IN [name |-> label, id |-> IF rec.id.ok THEN N1(rec.id.p, rec.id.l) ELSE NoneN,
      kids |-> {XKid(x.a, x.v, force) : x \in rec.attrs \ used}]
XNsRoot(st) == SeqToSet(st.reg) \cup (IF st.dflt # NONE THEN {<<"", st.dflt>>} ELSE {})
               \cup {<<"prov", ProvNS>>, <<"xsd", XsdNoHash>>, <<"xsi", XsiNS>>}
Override(base, over) == {e \in base : ~\E o \in over : o[1] = e[1]} \cup over
XNsBundle(docst, bst) ==
  Override(XNsRoot(docst),
           Override(SeqToSet(bst.reg) \cup (IF bst.dflt # NONE THEN {<<"", bst.dflt>>} ELSE {}),
                    {<<"prov", ProvNS>>, <<"xsd", XsdNoHash>>, <<"xsi", XsiNS>>}))
HintAt(recs, i) == IF i <= Len(recs) THEN recs[i].name ELSE ""
EncAX(ms, h, force, obs) ==
  LET c == ms.con[h]
      st == ms.mgr[c.mgr]
  IN [ns |-> XNsRoot(st),
      recs |-> [i \in 1..Len(c.recs) |-> XRecOf(c.recs[i], force, HintAt(obs.recs, i))],
      bundles |-> [i \in 1..Len(c.bundles) |->
                     LET b == ms.con[c.bundles[i]] IN
                     [id |-> N1(b.id.p, b.id.l), ns |-> XNsBundle(st, ms.mgr[b.mgr]),
                      recs |-> [j \in 1..Len(b.recs) |->
                                  XRecOf(b.recs[j], force,
                                         IF i <= Len(obs.bundles) THEN HintAt(obs.bundles[i].recs, j) ELSE "")]]]]

(* ---- the lexed text in the same form ---- *)
XN(s) == IF s.qn = <<>> THEN NoneN ELSE <<s.qn[1]>>
AbsXText(c, xt) ==
  IF c.text.j = "null" THEN [k |-> "none"]
  ELSE LET t == c.text
           x == IF xt = NoneN THEN "" ELSE IF xt[1].p = "xsd" /\ Len(xt[1].l) = 1 THEN xt[1].l[1] ELSE "?"
       IN IF x = "QName" THEN [k |-> "name", p |-> NameOf(t).p, l |-> NameOf(t).l]
          ELSE IF x = "dateTime" \/ (x = "" /\ IsProvEl(c) /\ c.l \in JTimeAttrs) THEN [k |-> "iso", v |-> t.iso]
          ELSE IF x \in {"int"} THEN [k |-> "num", v |-> t.int]
          ELSE IF x = "double" THEN [k |-> "num", v |-> t.flt]
          ELSE IF x = "boolean" THEN [k |-> "bool", v |-> t.bool]
          ELSE IF x = "anyURI" THEN [k |-> "uri", u |-> t.uri]
          ELSE IF t.iso # "" /\ t.v \notin {"s1", "s2", "e", "nq"} THEN [k |-> "iso", v |-> t.iso]
          ELSE [k |-> "tok", v |-> t.v]
AbsXKid(c) ==
  LET xt == IF XHasAttr(c, XsiNS, "type") THEN XN(XGetAttr(c, XsiNS, "type")) ELSE NoneN IN
  [tag |-> <<c.ns, c.ls>>,
   ref |-> IF XHasAttr(c, ProvNS, "ref") THEN XN(XGetAttr(c, ProvNS, "ref")) ELSE NoneN,
   xt |-> xt,
   lang |-> IF XHasAttr(c, <<"xml">>, "lang") THEN XGetAttr(c, <<"xml">>, "lang").raw ELSE "",
   text |-> AbsXText(c, xt)]
AbsXRec(e) == [name |-> e.l, id |-> IF XHasAttr(e, ProvNS, "id") THEN XN(XGetAttr(e, ProvNS, "id")) ELSE NoneN,
               kids |-> {AbsXKid(e.kids[i]) : i \in 1..Len(e.kids)}]
AbsXRecs(parent) == LET idx == SelectSeq([i \in 1..Len(parent.kids) |-> i], LAMBDA i : XIsRecord(parent.kids[i]))
                    IN [n \in 1..Len(idx) |-> AbsXRec(parent.kids[idx[n]])]
AbsXNs(e) == {<<e.nsmap[i][1], e.nsmap[i][2]>> : i \in 1..Len(e.nsmap)}
AbsX(root) ==
  LET bs == XBundles(root) IN
  [ns |-> AbsXNs(root), recs |-> AbsXRecs(root),
   bundles |-> [i \in 1..Len(bs) |->
                  [id |-> IF XHasAttr(bs[i], ProvNS, "id") THEN XN(XGetAttr(bs[i], ProvNS, "id")) ELSE NoneN,
                   ns |-> AbsXNs(bs[i]), recs |-> AbsXRecs(bs[i])]]]
SameAX(a, b) ==
  /\ a.ns = b.ns /\ BagEqSeq(a.recs, b.recs)
  /\ Len(a.bundles) = Len(b.bundles)
  /\ \A i \in 1..Len(a.bundles) :
        a.bundles[i].id = b.bundles[i].id /\ a.bundles[i].ns = b.bundles[i].ns
        /\ BagEqSeq(a.bundles[i].recs, b.bundles[i].recs)
(* ---- reading AX as the PROV-XML note says (for the model-level check XmlDenotes) ---- *)
(* the same rules as SpecXml.XValue / XRecord, on the abstract form                      *)
AXScope(ns) == [p \in {e[1] : e \in ns} |-> (CHOOSE e \in ns : e[1] = p)[2]]
AXName(n, sc) == IF n = NoneN THEN NONE ELSE IF n[1].p \in DOMAIN sc THEN sc[n[1].p] \o n[1].l ELSE NONE
AXStr(text) ==      \* element text read as a string
  CASE text.k = "none" -> [t |-> "str", v |-> "e"]
    [] text.k = "iso"  -> [t |-> "isostr", v |-> text.v]       \* a string that happens to look like a time
    [] text.k \in {"tok", "num", "bool"} -> [t |-> "str", v |-> text.v]
    [] OTHER -> Bad("not a string payload")
AXVal(kid, sc) ==
  LET tx == kid.text
      isTime == kid.tag[1] = ProvNS /\ Len(kid.tag[2]) = 1 /\ kid.tag[2][1] \in JTimeAttrs
  IN
  IF kid.ref # NoneN THEN [t |-> "qn", u |-> AXName(kid.ref, sc)]
  ELSE IF kid.lang # "" THEN [t |-> "lang", v |-> IF tx.k = "none" THEN "e" ELSE tx.v, lang |-> kid.lang]
  ELSE IF kid.xt # NoneN THEN
       LET dt == AXName(kid.xt, sc)
           x  == XsdName(dt)
       IN IF dt = NONE THEN Bad("unbound xsi:type")
          ELSE IF x = "QName" THEN [t |-> "qn", u |-> IF tx.k = "name" THEN AXName(N1(tx.p, tx.l), sc) ELSE NONE]
          ELSE IF x = "string" THEN AXStr(tx)
          ELSE IF x \in JIntTypes THEN (IF tx.k = "num" THEN [t |-> "int", v |-> tx.v] ELSE Bad("int"))
          ELSE IF x \in {"double", "float", "decimal"} THEN (IF tx.k = "num" THEN [t |-> "float", v |-> tx.v] ELSE Bad("float"))
          ELSE IF x = "boolean" THEN (IF tx.k = "bool" THEN [t |-> "bool", v |-> tx.v] ELSE Bad("bool"))
          ELSE IF x = "dateTime" THEN (IF tx.k = "iso" THEN [t |-> "dt", v |-> tx.v] ELSE Bad("dateTime"))
          ELSE IF x = "anyURI" THEN (IF tx.k = "uri" THEN [t |-> "uri", u |-> tx.u] ELSE Bad("anyURI"))
          ELSE [t |-> "lit", v |-> IF tx.k = "none" THEN "e" ELSE tx.v, dt |-> CanonDT(dt)]
  ELSE IF isTime THEN (IF tx.k = "iso" THEN [t |-> "dt", v |-> tx.v] ELSE Bad("time"))
  ELSE AXStr(tx)
AXRec(r, sc) ==
  [k |-> XKind[r.name],
   id |-> AXName(r.id, sc),
   attrs |-> {[a |-> k.tag[1] \o k.tag[2], v |-> AXVal(k, sc)] : k \in r.kids}
             \cup (IF r.name \in DOMAIN XSubtype
                   THEN {[a |-> <<"prov#", "type">>, v |-> [t |-> "qn", u |-> <<"prov#", XSubtype[r.name]>>]]}
                   ELSE {})]
ReadAX(ax) ==
  LET top == AXScope(ax.ns) IN
  [recs |-> [i \in 1..Len(ax.recs) |-> AXRec(ax.recs[i], top)],
   bundles |-> [i \in 1..Len(ax.bundles) |->
                  LET sc == AXScope(ax.bundles[i].ns) IN
                  [id |-> AXName(ax.bundles[i].id, sc),
                   recs |-> [j \in 1..Len(ax.bundles[i].recs) |-> AXRec(ax.bundles[i].recs[j], sc)]]]]
NoObs == [recs |-> <<>>, bundles |-> <<>>]
(***************************************************************************)
(* The PROV-XML READER of the library (ProvXMLSerializer.deserialize_subtree, *)
(* _extract_attributes, xml_qname_to_QualifiedName), transcribed like the   *)
(* PROV-JSON one: the calls it makes on a fresh document, run by ApplyF.     *)
(* Unlike the JSON reader it registers no namespace declarations: every name *)
(* arrives as a QualifiedName built from the in-scope xmlns bindings, and    *)
(* the namespaces of the document read are those its names brought along.    *)
(* DecX(ax) = [st, exc]; the document is "~r", its bundles "~r+<i>".         *)
(***************************************************************************)
XRes(n, sc) ==        \* xml_qname_to_QualifiedName: [ok, q]
  IF n.p # "" /\ n.p \in DOMAIN sc
  THEN LET u == sc[n.p] IN
       [ok |-> TRUE, q |-> IF u = XsdNoHash THEN QN("xsd", XsdNS, n.l)
                           ELSE IF u = ProvNS THEN QN("prov", ProvNS, n.l) ELSE QN(n.p, u, n.l)]
  ELSE IF n.p = "" /\ "" \in DOMAIN sc THEN [ok |-> TRUE, q |-> QN("", sc[""], n.l)]
  ELSE [ok |-> FALSE, q |-> NoQN]
QName(q) == NameQN(q.p, q.ns, q.l)
(* the prefix an element of namespace u is written with: a declared prefix, else the default *)
TagPrefix(sc, u) == IF \E p \in DOMAIN sc : p # "" /\ sc[p] = u THEN CHOOSE p \in DOMAIN sc : p # "" /\ sc[p] = u ELSE ""
XAmbiguous(ns) == \E e1, e2 \in ns : e1[1] # e2[1] /\ e1[2] = e2[2]
XNative == {"string", "double", "long", "int", "boolean", "dateTime", "anyURI"}
DecXVal(kid, sc) ==        \* [ok, v: input value]
  LET tx == kid.text
      tok == IF tx.k = "none" THEN "e" ELSE IF tx.k \in {"tok", "iso", "num", "bool"} THEN tx.v ELSE "?"
  IN IF kid.ref # NoneN THEN LET r == XRes(kid.ref[1], sc) IN [ok |-> r.ok, v |-> [t |-> "name", n |-> QName(r.q)]]
     ELSE IF kid.lang # "" THEN [ok |-> TRUE, v |-> [t |-> "lang", v |-> tok, lang |-> kid.lang]]
     ELSE IF kid.xt # NoneN THEN
          LET d == XRes(kid.xt[1], sc) IN
          IF ~d.ok THEN [ok |-> FALSE, v |-> [t |-> "str", v |-> "?"]]
          ELSE IF Uri(d.q) = <<"xsd#", "QName">>
               THEN (IF tx.k = "name" THEN LET r == XRes([p |-> tx.p, l |-> tx.l], sc) IN
                                           [ok |-> r.ok, v |-> [t |-> "name", n |-> QName(r.q)]]
                     ELSE [ok |-> FALSE, v |-> [t |-> "str", v |-> "?"]])
          ELSE IF Len(Uri(d.q)) = 2 /\ Uri(d.q)[1] = "xsd#" /\ Uri(d.q)[2] \in XNative
               THEN [ok |-> TRUE, v |-> IF Uri(d.q)[2] = "anyURI" THEN [t |-> "nlit", T |-> "anyURI", u |-> tx.u]
                                        ELSE [t |-> "nlit", T |-> Uri(d.q)[2], v |-> tok]]
          ELSE [ok |-> TRUE, v |-> [t |-> "lit", v |-> tok, dt |-> d.q]]
     ELSE [ok |-> TRUE, v |-> IF tx.k = "iso" THEN [t |-> "iso", v |-> tx.v] ELSE [t |-> "str", v |-> tok]]
(* one record element -> the new_record call and, for a subtype element, the add_asserted_type after it *)
DecXRec(h, r, sc, idx) ==
  LET kids == SetToSeq(r.kids)
      attr(k) == LET u == k.tag[1] IN
                 IF u = ProvNS THEN NameQN("prov", ProvNS, k.tag[2])
                 ELSE NameQN(TagPrefix(sc, u), u, k.tag[2])
      vals == [i \in 1..Len(kids) |-> DecXVal(kids[i], sc)]
      idr  == IF r.id = NoneN THEN [ok |-> TRUE, q |-> NoQN] ELSE XRes(r.id[1], sc)
      ok   == idr.ok /\ \A i \in 1..Len(kids) : vals[i].ok
      new  == [op |-> "NewRec", h |-> h, k |-> XKind[r.name], via |-> "new_record",
               id |-> IF r.id = NoneN THEN <<>> ELSE <<QName(idr.q)>>,
               formals |-> <<>>, extras |-> [i \in 1..Len(kids) |-> <<attr(kids[i]), vals[i].v>>]]
  IN [ok |-> ok,
      acts |-> IF r.name \in DOMAIN XSubtype
               THEN <<new, [op |-> "AddType", r |-> [c |-> h, i |-> idx],
                            v |-> [t |-> "name", n |-> NameQN("prov", ProvNS, <<XSubtype[r.name]>>)]]>>
               ELSE <<new>>]
RECURSIVE DecXRecs(_, _, _, _, _)
DecXRecs(ms, h, recs, sc, i) ==
  IF i > Len(recs) THEN [st |-> ms, exc |-> "none"]
  ELSE LET d == DecXRec(h, recs[i], sc, Len(ms.con[h].recs) + 1) IN
       IF ~d.ok THEN [st |-> ms, exc |-> "ProvXMLException"]
       ELSE LET r == RunX(ms, d.acts, 1) IN
            IF r.exc # "none" THEN r ELSE DecXRecs(r.st, h, recs, sc, i + 1)
RECURSIVE DecXBundles(_, _, _)
DecXBundles(ms, bs, i) ==
  IF i > Len(bs) THEN [st |-> ms, exc |-> "none"]
  ELSE LET sc  == AXScope(bs[i].ns)
           idr == IF bs[i].id = NoneN THEN [ok |-> FALSE, q |-> NoQN] ELSE XRes(bs[i].id[1], sc)
       IN IF ~idr.ok THEN [st |-> ms, exc |-> "ProvException"]
          ELSE LET r1 == ApplyF(ms, [op |-> "Bundle", h |-> RH, id |-> QName(idr.q), out |-> RBun(i)]) IN
               IF r1.exc # "none" THEN [st |-> r1.st, exc |-> r1.exc]
               ELSE LET r2 == DecXRecs(r1.st, RBun(i), bs[i].recs, sc, 1) IN
                    IF r2.exc # "none" THEN r2 ELSE DecXBundles(r2.st, bs, i + 1)
DecX(ax) ==
  LET s0 == DoNewDoc(InitEmpty, [out |-> RH]).st
      r1 == DecXRecs(s0, RH, ax.recs, AXScope(ax.ns), 1)
  IN IF r1.exc # "none" THEN r1 ELSE DecXBundles(r1.st, ax.bundles, 1)
=============================================================================
