-------------------------------- MODULE Trace --------------------------------
(***************************************************************************)
(* (C) Trace validation.  Reads recorded executions of the real library    *)
(* (harness/drive.py) and, for every recorded step, evaluates              *)
(*   - the property clauses of Clauses.tla on the recorded observations,   *)
(*   - the known-finding predicates for clauses that fail,                 *)
(*   - the conformance clauses (prefix M_) against the model state obtained  *)
(*     by folding ApplyF over the recorded calls.                          *)
(* The step relation is total: it never disables on a failing clause, it   *)
(* reports it (one line each) and goes on, so the rest of the trace is     *)
(* still checked.                                                          *)
(*                                                                         *)
(* File format (harness/drive.py): {"traces": [ {"tid", "init", "hist":    *)
(* [call...], "from": k, "steps": [observed step for call k, k+1, ...]} ]} *)
(* Calls before `from' are only folded into the model (they are the        *)
(* shortest history of a model state whose own steps are checked in        *)
(* another trace).                                                         *)
(***************************************************************************)
EXTENDS KnownFindings, Json, IOUtils

Data   == JsonDeserialize(IOEnv.TRACE_FILE)
Traces == Data.traces

VARIABLES tid, l, ms, nv
tvars == <<tid, l, ms, nv>>

TInit == \E t \in 1..Len(Traces) :
           /\ tid = t
           /\ l = Traces[t].from - 1
           /\ ms = RunF(InitMs(Traces[t].init), Traces[t].hist, Traces[t].from - 1)
           /\ nv = {}

PropertyClauses(step) == C03Clauses(step) \cup C05Clauses(step) \cup C18Clauses(step)
                         \cup C09Clauses(step) \cup C08Clauses(step) \cup C12Clauses(step) \cup C04Clauses(step) \cup C17Clauses(step) \cup C16Clauses(step)
                         \cup C01Clauses(step) \cup C10Clauses(step) \cup C02Clauses(step) \cup C06Clauses(step) \cup C13Clauses(step) \cup C14Clauses(step) \cup C15Clauses(step) \cup C07Clauses(step) \cup C11Clauses(step)
DriftClauses(r, step) == {M_Names(r.st, r.res, step), M_Con(r.st, step), M_Exc(r, step), M_Eq(r, step), M_FS(step), M_IO(step), M_Json(r.st, step), M_JsonBack(r.st, step), M_ProvN(r.st, step), M_Xml(r.st, step), M_XmlBack(r.st, step), M_Rdf(r.st, step)}

Report(T, n, step, cls) ==
  /\ \A c \in cls : c.ok \/
        PrintT("FAIL|" \o ToString(T.tid) \o "|" \o ToString(n) \o "|" \o c.c \o "|" \o KnownFinding(step, c.c))
  /\ n = Len(T.hist) =>
        PrintT("DONE|" \o ToString(T.tid) \o "|" \o ToString(n) \o "|" \o ToJson(nv'))

TNext == LET T == Traces[tid] IN
         /\ l < Len(T.hist)
         /\ LET a    == T.hist[l + 1]
                step == T.steps[l + 2 - T.from]
                r    == ApplyF(ms, a)
                \* NoSuchObject: the call names an object the model has but the library never produced
                \* (the step that failed to produce it is judged in its own trace): drift, nothing else
                cls  == IF step.exc = "other:NoSuchObject" THEN {Cl("M_Exc", TRUE, FALSE)}
                        ELSE PropertyClauses(step) \cup DriftClauses(r, step)
            IN /\ l' = l + 1
               /\ tid' = tid
               /\ ms' = r.st
               /\ nv' = nv \cup {c.c : c \in {x \in cls : x.nv}}
               /\ Report(T, l + 1, step, cls)

TSpec == TInit /\ [][TNext]_tvars
=============================================================================
