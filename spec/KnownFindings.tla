---------------------------- MODULE KnownFindings ----------------------------
(***************************************************************************)
(* One narrow predicate per recorded finding (known_findings.json).  A     *)
(* failing clause of an observed step is attributed to finding F only if   *)
(* *every* failing witness of that clause in the step satisfies F's        *)
(* predicate; anything else stays a violation.  Predicates read only the   *)
(* observed step.                                                          *)
(***************************************************************************)
EXTENDS Clauses

(* KF-C03-shadow: a name a bundle obtained through its document (string    *)
(* resolution delegated to the parent manager returns the parent's name     *)
(* without re-homing it) is shadowed by a binding of the bundle's own        *)
(* manager (table, renamed-prefix map or default namespace): the printed     *)
(* form still denotes the original URI in the parent scope, but resolves to  *)
(* a different URI in the bundle.                                            *)
ShadowEntry(step, e) ==
  /\ step.parents[e.s] # ""
  /\ e.via = "str"                  \* names resolved from QualifiedName objects are registered in the bundle itself
  /\ e.up.ok /\ Uri(e.up) = e.uri
  /\ e.now.ok /\ Uri(e.now) # e.uri
  \* not explained by the finding: a bare name in a scope that had itself been told
  \* (set_default_namespace) to use the name's namespace as its default - that name is the scope's own
  /\ ~("asked" \in DOMAIN e /\ e.str.k = "bare" /\ e.asked # <<>>
       /\ e.asked = SubSeq(e.uri, 1, Len(e.uri) - Len(e.str.l)))

(* KF-C03-bare-colon: a name in the default namespace whose local part contains a colon prints   *)
(* bare as "u:x"; valid_qualified_name reads that text as prefix "u" + local "x" (or as a URI    *)
(* with a scheme) and finds nothing.  Only this shape: printed bare, colon in the local part,     *)
(* re-resolution yields no name at all.                                                           *)
BareColonEntry(e) == e.str.k = "bare" /\ ColonLocal(e.str.l) /\ ~e.now.ok
KF_C03c(step) ==
  LET bad == {i \in 1..Len(step.reres) : ~C03cEntry(step.reres[i])} IN
  IF bad # {} /\ \A i \in bad : ShadowEntry(step, step.reres[i]) \/ BareColonEntry(step.reres[i])
  THEN (IF \E i \in bad : BareColonEntry(step.reres[i]) THEN "KF-C03-bare-colon" ELSE "KF-C03-shadow")
  ELSE ""

(* KF-C05-settime-replace: ProvActivity.set_time assigns the new value without  *)
(* the single-value guard, so a different existing start/end time is replaced   *)
(* silently instead of being refused.                                           *)
KF_C05_refuse(step) == IF step.op.op = "SetTime" THEN "KF-C05-settime-replace" ELSE ""

(* KF-unified-registers: unified() of a bundle that holds two or more records of    *)
(* one identifier re-validates their names in that bundle (copy()/add_attributes), *)
(* which registers, on the SOURCE bundle, namespaces it had only inherited from    *)
(* its document (or adopts the document's default namespace).  Content unchanged.  *)
InheritedNsOnly(step, c) ==
  LET P == step.parents[c] IN
  /\ P # "" /\ c \in DOMAIN step.post.con /\ P \in DOMAIN step.pre.ns /\ c \in DOMAIN step.pre.ns
  /\ step.post.con[c] = step.pre.con[c]
  /\ step.post.ns[c] # step.pre.ns[c]
  /\ SeqToSet(step.pre.ns[c].reg) \subseteq SeqToSet(step.post.ns[c].reg)
  /\ \A e \in SeqToSet(step.post.ns[c].reg) \ SeqToSet(step.pre.ns[c].reg) :
        \E e2 \in SeqToSet(step.pre.ns[P].reg) : e2[2] = e[2]      \* (possibly under a fresh prefix)
  /\ \/ step.post.ns[c].dflt = step.pre.ns[c].dflt
     \/ (step.pre.ns[c].dflt = NONE /\ step.post.ns[c].dflt = step.pre.ns[P].dflt)
UnifiesDup(step, c) ==
  \E i, j \in 1..Len(step.pre.con[c].recs) : i < j /\ SameGroup(step.pre.con[c].recs[i], step.pre.con[c].recs[j])
KF_pure(step) ==
  LET srcs == UnifySources(step)
      changed == {c \in srcs : ~SameCon(step, c)}
  IN IF step.op.op = "Unified" /\ changed # {} /\
        \A c \in changed : InheritedNsOnly(step, c) /\ UnifiesDup(step, c)
     THEN "KF-unified-registers" ELSE ""
KF_frame(step) ==
  LET changed == {h \in DOMAIN step.pre.con \ Owned(step) : ~SameCon(step, h)} IN
  IF step.op.op = "Unified" /\ changed # {} /\ changed \subseteq UnifySources(step) /\
     \A c \in changed : InheritedNsOnly(step, c) /\ UnifiesDup(step, c)
  THEN "KF-unified-registers" ELSE ""

(* KF-C03-shadow seen through a textual round trip: a bundle re-binds a prefix (or  *)
(* the default namespace) of its document, and a record of that bundle uses a name  *)
(* it inherited under the document's binding; the printed name is then read back    *)
(* under the bundle's binding.  Only such bundles may differ, and every record that *)
(* does not come back must mention a URI in a shadowed namespace of the document.   *)
ShadowedNs(doc, b) ==
  {e2[2] : e2 \in {x \in SeqToSet(doc.ns.reg) : \E e1 \in SeqToSet(b.ns.reg) : e1[1] = x[1] /\ e1[2] # x[2]}}
  \cup (IF b.ns.dflt # NONE /\ doc.ns.dflt # NONE /\ b.ns.dflt # doc.ns.dflt THEN {doc.ns.dflt} ELSE {})
UrisOfRec(r) == (IF r.id = NONE THEN {} ELSE {r.id}) \cup {x.a : x \in SeqToSet(r.attrs)}
                \cup {x.v.u : x \in {y \in SeqToSet(r.attrs) : y.v.t = "qn"}}
                \cup {x.v.dt : x \in {y \in SeqToSet(r.attrs) : y.v.t = "lit"}}
(* bundles are matched by position (all writers keep their order); a bundle whose own *)
(* identifier lies in a namespace it shadows may itself come back under another name   *)
ShadowExplains(src, other) ==
  /\ SameBag(ContentSeq(src.recs), other.recs)
  /\ Len(src.bundles) = Len(other.bundles)
  /\ \A i \in 1..Len(src.bundles) :
        LET sb == src.bundles[i]
            ob == other.bundles[i]
            lost == {n \in 1..Len(sb.recs) : CountIn(ContentSeq(sb.recs), Content(sb.recs[n]))
                                              > CountIn(ob.recs, Content(sb.recs[n]))}
        IN /\ (sb.id = ob.id \/ \E sn \in ShadowedNs(src, sb) : IsPrefix(sn, sb.id))
           /\ \A n \in lost : \E u \in UrisOfRec(sb.recs[n]) : \E sn \in ShadowedNs(src, sb) : IsPrefix(sn, u)
AsRead(d) == [recs |-> ContentSeq(d.recs),
              bundles |-> [i \in 1..Len(d.bundles) |-> [id |-> d.bundles[i].id, recs |-> ContentSeq(d.bundles[i].recs)]]]
KF_rt(step) == IF step.exc = "none" /\ ShadowExplains(step.src, AsRead(step.back)) THEN "KF-C03-shadow" ELSE ""

(* KF-C06-noid: PROV-N has no syntax for an identifier or attributes on alternateOf,  *)
(* specializationOf, hadMember and mentionOf; the library prints them anyway          *)
(* ("hadMember(ex:r; c, e, [..])"), which is outside the grammar.                      *)
NoIdNames == {"alternateOf", "specializationOf", "hadMember", "mentionOf"}
OnlyNoIdProblem(e) ==
  \/ WfExpr(e)
  \/ (e.name \in NoIdNames /\ (e.hasid \/ e.hasattrs) /\ WfExpr([e EXCEPT !.hasid = FALSE, !.hasattrs = FALSE]))
KF_C06_grammar(step) ==
  IF /\ \A i \in 1..Len(step.ast.exprs) : OnlyNoIdProblem(step.ast.exprs[i])
     /\ \A b \in 1..Len(step.ast.bundles) : \A i \in 1..Len(step.ast.bundles[b].exprs) :
           OnlyNoIdProblem(step.ast.bundles[b].exprs[i])
  THEN "KF-C06-noid" ELSE ""

(* KF-C07-alternate-id: an alternateOf record WITH an identifier is written to RDF as a   *)
(* typed node without its two entities (PROV-O has no qualified form for alternateOf and  *)
(* the writer skips the relation), so it comes back without endpoints and attributes.      *)
AltIdOnly(srcRecs, backRecs) ==
  LET U == USet(srcRecs)
      B == SeqToSet(ContentSeq(backRecs))
      isAltId(r) == r.k = "alternate" /\ r.id # NONE
  IN /\ \A r \in U \ B : isAltId(r)
     /\ \A r \in B \ U : isAltId(r) /\ \E q \in U \ B : q.id = r.id
(* KF-C07-pairing: a subject carries a PLAIN anonymous relation (two arguments, nothing else) and *)
(* an anonymous relation of the same kind with optional arguments or attributes; the reader      *)
(* pairs the plain triple with the qualified node and the plain relation does not come back.      *)
PlainAnon(r) == r.id = NONE /\ r.k \notin Elements /\ Len(Formals[r.k]) >= 2 /\
                {x.a : x \in r.attrs} = {ProvU(Formals[r.k][1]), ProvU(Formals[r.k][2])}
Subject(r) == RefOf(r, Formals[r.k][1])
MixedSubject(U, k, sub) ==        \* the source has a plain AND a qualified anonymous relation of kind k on sub
  /\ \E r \in U : r.k = k /\ PlainAnon(r) /\ Subject(r) = sub
  /\ \E q \in U : q.k = k /\ q.id = NONE /\ q.k \notin Elements /\ ~PlainAnon(q) /\ Subject(q) = sub
PairingOnly(srcRecs, backRecs) ==
  LET U == USet(srcRecs)
      B == SeqToSet(ContentSeq(backRecs))
  IN \A r \in (U \ B) \cup (B \ U) :
        r.id = NONE /\ r.k \notin Elements /\ Len(Formals[r.k]) >= 2 /\ MixedSubject(U, r.k, Subject(r))
KF_C07_pairing(step) ==
  IF /\ step.exc = "none"
     /\ PairingOnly(step.src.recs, step.back.recs)
     /\ Len(step.src.bundles) = Len(step.back.bundles)
     /\ \A i \in 1..Len(step.src.bundles) : \E j \in 1..Len(step.back.bundles) :
           step.src.bundles[i].id = step.back.bundles[j].id
           /\ PairingOnly(step.src.bundles[i].recs, step.back.bundles[j].recs)
  THEN "KF-C07-pairing" ELSE ""
KF_C07(step) ==
  IF /\ step.exc = "none"
     /\ AltIdOnly(step.src.recs, step.back.recs)
     /\ Len(step.src.bundles) = Len(step.back.bundles)
     /\ \A i \in 1..Len(step.src.bundles) : \E j \in 1..Len(step.back.bundles) :
           step.src.bundles[i].id = step.back.bundles[j].id
           /\ AltIdOnly(step.src.bundles[i].recs, step.back.bundles[j].recs)
  THEN "KF-C07-alternate-id" ELSE ""

(* KF-C11-multimember: one membership record holding several prov:entity values (the   *)
(* PROV-XML / PROV-JSON compatibility form) is written to PROV-JSON with its first       *)
(* member only.                                                                          *)
MultiMember(r) == r.k = "membership" /\ Cardinality({x \in r.attrs : x.a = ProvU("entity")}) > 1
MultiMemberOnly(d, d3) ==
  LET A == SeqToSet(ContentSeq(d)) 
      B == SeqToSet(ContentSeq(d3))
  IN /\ \A r \in A \ B : MultiMember(r)
     /\ \A r \in B \ A : r.k = "membership" /\ \E q \in A \ B : r.attrs \subseteq q.attrs
KF_C11_cross(step) ==
  IF /\ step.op.fmt = "xml" /\ step.res.cross = "done"
     /\ MultiMemberOnly(step.res.d.recs, step.res.d3.recs)
     /\ Len(step.res.d.bundles) = Len(step.res.d3.bundles)
     /\ \A i \in 1..Len(step.res.d.bundles) : \E j \in 1..Len(step.res.d3.bundles) :
           step.res.d.bundles[i].id = step.res.d3.bundles[j].id
           /\ MultiMemberOnly(step.res.d.bundles[i].recs, step.res.d3.bundles[j].recs)
  THEN "KF-C11-multimember" ELSE ""

(* KF-C01-default-prefix: a namespace registered under the PREFIX "default" cannot be written *)
(* to PROV-JSON: "default" is the reserved key of the default namespace in the prefix block.    *)
HasDefaultPrefix(src) ==
  \/ \E e \in SeqToSet(src.ns.reg) : e[1] = "default"
  \/ \E i \in 1..Len(src.bundles) : \E e \in SeqToSet(src.bundles[i].ns.reg) : e[1] = "default"
KF_default(step) == IF HasDefaultPrefix(step.src) THEN "KF-C01-default-prefix" ELSE ""

KnownFinding(step, c) ==
  CASE c = "C03c" -> KF_C03c(step)
    [] c = "C05_refuse" -> KF_C05_refuse(step)
    [] c = "C08_pure"   -> KF_pure(step)
    [] c = "C12_frame"  -> KF_frame(step)
    [] c = "C01_rt"     -> IF KF_default(step) # "" THEN KF_default(step) ELSE KF_rt(step)
    [] c = "C01_noexc"  -> KF_default(step)
    [] c = "C10_wf_json" -> KF_default(step)
    [] c = "C02_rt"     -> KF_rt(step)
    [] c = "C10_read_xml" -> IF ShadowExplains(step.src, SpecReadXML(step.ast)) THEN "KF-C03-shadow" ELSE ""
    [] c = "C13_repeat" ->       \* the same export differs before / after a unifying exporter registered them
         LET changed == {h \in DOMAIN step.pre.con : ~SameCon(step, h)}
             items == step.res.items
         IN IF /\ changed # {} /\ \A h \in changed : InheritedNsOnly(step, h) /\ UnifiesDup(step, h)
               /\ \A i \in 1..Len(items) : items[i].prev = "diff" =>
                     /\ items[i].ex \in {"provn", "getprovn", "json", "jsonsort", "xml", "xmlforce", "rdf"}
                     /\ \E j \in 1..(i - 1) : items[j].ex \in Unifying
            THEN "KF-unified-registers" ELSE ""
    [] c = "C13_pure" ->
         LET changed == {h \in DOMAIN step.pre.con : ~SameCon(step, h)} IN
         IF changed # {} /\ \A h \in changed : InheritedNsOnly(step, h) /\ UnifiesDup(step, h)
         THEN "KF-unified-registers" ELSE ""
    [] c = "C07_rt" -> IF KF_C07(step) # "" THEN KF_C07(step) ELSE KF_C07_pairing(step)
    [] c = "C07_one" -> IF KF_C07(step) # "" THEN KF_C07(step) ELSE KF_C07_pairing(step)
    [] c = "C11_cross" -> KF_C11_cross(step)
    [] c = "C06_grammar" -> KF_C06_grammar(step)
    [] c = "C06_denotes" -> IF ShadowExplains(step.src, SpecReadProvN(step.ast)) \/ ShadowExplains(step.src, SpecReadProvNS(step.ast, TRUE)) THEN "KF-C03-shadow" ELSE ""
    [] c = "C10_read_json" -> IF KF_default(step) # "" THEN KF_default(step) ELSE IF ShadowExplains(step.src, SpecReadJSON(step.ast)) THEN "KF-C03-shadow" ELSE ""
    [] OTHER -> ""

=============================================================================
