---------------------------- MODULE KnownFindings ----------------------------
(***************************************************************************)
(* One narrow predicate per recorded finding (known_findings.json).  A     *)
(* failing clause of an observed step is attributed to finding F only if   *)
(* *every* failing witness of that clause in the step satisfies F's        *)
(* predicate; anything else stays a violation.  Predicates read only the   *)
(* observed step.                                                          *)
(***************************************************************************)
EXTENDS Clauses

(* KF-C03-shadow: a name a bundle obtained through its document (string    *)
(* resolution delegated to the parent manager returns the parent's name     *)
(* without re-homing it) is shadowed by a binding of the bundle's own        *)
(* manager (table, renamed-prefix map or default namespace): the printed     *)
(* form still denotes the original URI in the parent scope, but resolves to  *)
(* a different URI in the bundle.                                            *)
ShadowEntry(step, e) ==
  /\ step.parents[e.s] # ""
  /\ e.up.ok /\ Uri(e.up) = e.uri
  /\ e.now.ok /\ Uri(e.now) # e.uri

KF_C03c(step) ==
  LET bad == {i \in 1..Len(step.reres) : ~C03cEntry(step.reres[i])} IN
  IF bad # {} /\ \A i \in bad : ShadowEntry(step, step.reres[i]) THEN "KF-C03-shadow" ELSE ""

(* KF-C05-settime-replace: ProvActivity.set_time assigns the new value without  *)
(* the single-value guard, so a different existing start/end time is replaced   *)
(* silently instead of being refused.                                           *)
KF_C05_refuse(step) == IF step.op.op = "SetTime" THEN "KF-C05-settime-replace" ELSE ""

KnownFinding(step, c) ==
  CASE c = "C03c" -> KF_C03c(step)
    [] c = "C05_refuse" -> KF_C05_refuse(step)
    [] OTHER -> ""

=============================================================================
