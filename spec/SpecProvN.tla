------------------------------ MODULE SpecProvN ------------------------------
(***************************************************************************)
(* An independent reader of PROV-N, written from the W3C PROV-N            *)
(* recommendation (section 3: productions of the individual expressions),  *)
(* NOT from the library.  Input: the AST of harness/lex_provn.py (generic  *)
(* expression syntax).  This module decides arity, argument positions,     *)
(* where the '-' marker may stand, whether an identifier / attribute list  *)
(* is allowed, and what every literal denotes.                             *)
(***************************************************************************)
EXTENDS SpecXml

(* expression name -> [k: kind, pos: formal attribute per position, opt: positions that  *)
(* accept '-', min: arguments that may not be dropped, id: ';' identifier allowed,       *)
(* idarg: the identifier is the first argument, attrs: attribute list allowed]           *)
PNTable ==
  [ entity |-> [k |-> "entity", pos |-> <<>>, opt |-> {}, short |-> 0, id |-> FALSE, idarg |-> TRUE, attrs |-> TRUE],
    agent  |-> [k |-> "agent", pos |-> <<>>, opt |-> {}, short |-> 0, id |-> FALSE, idarg |-> TRUE, attrs |-> TRUE],
    activity |-> [k |-> "activity", pos |-> <<"startTime", "endTime">>, opt |-> {1, 2}, short |-> 0,
                  id |-> FALSE, idarg |-> TRUE, attrs |-> TRUE],
    wasGeneratedBy |-> [k |-> "generation", pos |-> <<"entity", "activity", "time">>, opt |-> {2, 3}, short |-> 1,
                        id |-> TRUE, idarg |-> FALSE, attrs |-> TRUE],
    used |-> [k |-> "usage", pos |-> <<"activity", "entity", "time">>, opt |-> {2, 3}, short |-> 1,
              id |-> TRUE, idarg |-> FALSE, attrs |-> TRUE],
    wasInformedBy |-> [k |-> "communication", pos |-> <<"informed", "informant">>, opt |-> {}, short |-> 2,
                       id |-> TRUE, idarg |-> FALSE, attrs |-> TRUE],
    wasStartedBy |-> [k |-> "start", pos |-> <<"activity", "trigger", "starter", "time">>, opt |-> {2, 3, 4},
                      short |-> 1, id |-> TRUE, idarg |-> FALSE, attrs |-> TRUE],
    wasEndedBy |-> [k |-> "end", pos |-> <<"activity", "trigger", "ender", "time">>, opt |-> {2, 3, 4},
                    short |-> 1, id |-> TRUE, idarg |-> FALSE, attrs |-> TRUE],
    wasInvalidatedBy |-> [k |-> "invalidation", pos |-> <<"entity", "activity", "time">>, opt |-> {2, 3},
                          short |-> 1, id |-> TRUE, idarg |-> FALSE, attrs |-> TRUE],
    wasDerivedFrom |-> [k |-> "derivation",
                        pos |-> <<"generatedEntity", "usedEntity", "activity", "generation", "usage">>,
                        opt |-> {3, 4, 5}, short |-> 2, id |-> TRUE, idarg |-> FALSE, attrs |-> TRUE],
    wasAttributedTo |-> [k |-> "attribution", pos |-> <<"entity", "agent">>, opt |-> {}, short |-> 2,
                         id |-> TRUE, idarg |-> FALSE, attrs |-> TRUE],
    wasAssociatedWith |-> [k |-> "association", pos |-> <<"activity", "agent", "plan">>, opt |-> {2, 3},
                           short |-> 1, id |-> TRUE, idarg |-> FALSE, attrs |-> TRUE],
    actedOnBehalfOf |-> [k |-> "delegation", pos |-> <<"delegate", "responsible", "activity">>, opt |-> {3},
                         short |-> 2, id |-> TRUE, idarg |-> FALSE, attrs |-> TRUE],
    wasInfluencedBy |-> [k |-> "influence", pos |-> <<"influencee", "influencer">>, opt |-> {}, short |-> 2,
                         id |-> TRUE, idarg |-> FALSE, attrs |-> TRUE],
    alternateOf |-> [k |-> "alternate", pos |-> <<"alternate1", "alternate2">>, opt |-> {}, short |-> 2,
                     id |-> FALSE, idarg |-> FALSE, attrs |-> FALSE],
    specializationOf |-> [k |-> "specialization", pos |-> <<"specificEntity", "generalEntity">>, opt |-> {},
                          short |-> 2, id |-> FALSE, idarg |-> FALSE, attrs |-> FALSE],
    hadMember |-> [k |-> "membership", pos |-> <<"collection", "entity">>, opt |-> {}, short |-> 2,
                   id |-> FALSE, idarg |-> FALSE, attrs |-> FALSE],
    mentionOf |-> [k |-> "mention", pos |-> <<"specificEntity", "generalEntity", "bundle">>, opt |-> {},
                   short |-> 3, id |-> FALSE, idarg |-> FALSE, attrs |-> FALSE] ]

(* names through the printed declarations: bundle scope first, then document; prov, xsd predeclared *)
PNScope(d) == [pfx |-> [p \in {d.pfx[i][1] : i \in 1..Len(d.pfx)} |->
                          (d.pfx[CHOOSE i \in 1..Len(d.pfx) : d.pfx[i][1] = p])[2]],
               dflt |-> d.dflt]
PNName(q, inner, outer) == JNameUri(q, inner, outer)

(* an expression is grammatical: right number of arguments (all, or the short form), *)
(* '-' only at optional positions, identifier / attributes only where allowed         *)
PNArgs(e, T) == IF T.idarg THEN SubSeq(e.args, 2, Len(e.args)) ELSE e.args
WfExpr(e) ==
  /\ e.name \in DOMAIN PNTable
  /\ LET T == PNTable[e.name]
         args == PNArgs(e, T)
     IN /\ (T.idarg => Len(e.args) >= 1 /\ e.args[1].a = "name")
        /\ (e.hasid => T.id)
        /\ (e.hasattrs => T.attrs)
        /\ Len(args) \in {Len(T.pos), IF T.idarg THEN 0 ELSE T.short}
        /\ \A i \in 1..Len(args) :
             /\ args[i].a = "marker" => i \in T.opt
             /\ args[i].a = "time" => T.pos[i] \in JTimeAttrs
             /\ args[i].a = "name" => T.pos[i] \notin JTimeAttrs
WfProvN(ast) ==
  /\ \A i \in 1..Len(ast.exprs) : WfExpr(ast.exprs[i])
  /\ \A b \in 1..Len(ast.bundles) : \A i \in 1..Len(ast.bundles[b].exprs) : WfExpr(ast.bundles[b].exprs[i])

(* what a literal denotes *)
PNLit(l, inner, outer) ==
  CASE l.l = "int" -> [t |-> "int", v |-> l.v]
    [] l.l = "qn"  -> [t |-> "qn", u |-> PNName(l.qn, inner, outer)]
    [] l.l = "str" ->
         IF l.lang # "" THEN [t |-> "lang", v |-> l.s.v, lang |-> l.lang]
         ELSE IF l.dt = <<>> THEN [t |-> "str", v |-> l.s.v]
         ELSE LET dt == PNName(l.dt[1], inner, outer)
                  x  == XsdT(dt)
              IN IF dt = NONE THEN Bad("unbound datatype")
                 ELSE IF x = "string" THEN [t |-> "str", v |-> l.s.v]
                 ELSE IF x \in JIntTypes THEN [t |-> "int", v |-> l.s.int]
                 ELSE IF x \in {"double", "float", "decimal"} THEN [t |-> "float", v |-> l.s.flt]
                 ELSE IF x = "boolean" THEN [t |-> "bool", v |-> l.s.bool]
                 ELSE IF x = "dateTime" THEN [t |-> "dt", v |-> l.s.iso]
                 ELSE IF x = "anyURI" THEN [t |-> "uri", u |-> l.s.uri]
                 ELSE IF dt = <<"prov#", "QUALIFIED_NAME">> \/ x = "QName"
                      THEN [t |-> "qn", u |-> JStrUri(l.s, inner, outer)]
                 ELSE [t |-> "lit", v |-> l.s.v, dt |-> dt]

PNRecord(e, inner, outer) ==
  LET T == PNTable[e.name]
      args == PNArgs(e, T)
      ident == IF T.idarg THEN PNName(e.args[1].qn, inner, outer)
               ELSE IF e.id = <<>> THEN NONE ELSE PNName(e.id[1], inner, outer)
      formal(i) == IF args[i].a = "time" THEN [t |-> "dt", v |-> args[i].iso]
                   ELSE [t |-> "qn", u |-> PNName(args[i].qn, inner, outer)]
  IN [k |-> T.k, id |-> ident,
      attrs |-> {[a |-> <<"prov#", T.pos[i]>>, v |-> formal(i)] : i \in {j \in 1..Len(args) : args[j].a # "marker"}}
                \cup {[a |-> PNName(e.attrs[i][1], inner, outer), v |-> PNLit(e.attrs[i][2], inner, outer)]
                        : i \in 1..Len(e.attrs)}]

(* The identifier after the keyword `bundle': the recommendation's scoping sentence ("the scope of a  *)
(* declaration occurring in a bundle is the bundle itself") does not settle whether the identifier    *)
(* itself is inside; readers in the field do either.  Both readings are defined, the property holds    *)
(* when one consistent reader recovers the document.                                                   *)
SpecReadProvNS(ast, own) ==
  LET top == PNScope(ast.decls)
      none == [pfx |-> <<>>, dflt |-> NONE]
  IN [recs |-> [i \in 1..Len(ast.exprs) |-> PNRecord(ast.exprs[i], top, none)],
      bundles |-> [b \in 1..Len(ast.bundles) |->
                     LET sc == PNScope(ast.bundles[b].decls) IN
                     [id |-> IF own THEN PNName(ast.bundles[b].id, sc, top) ELSE PNName(ast.bundles[b].id, top, none),
                      recs |-> [i \in 1..Len(ast.bundles[b].exprs) |-> PNRecord(ast.bundles[b].exprs[i], sc, top)]]]]
SpecReadProvN(ast) == SpecReadProvNS(ast, FALSE)

(* '-' stands exactly where an optional argument is absent: every expression is written  *)
(* with all its positions (as the library does), so markers = absent formals             *)
=============================================================================
