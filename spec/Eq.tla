---------------------------------- MODULE Eq ----------------------------------
(***************************************************************************)
(* Equality of records, bundles and documents as the library computes it   *)
(* (ProvRecord.__eq__/__hash__, ProvBundle.__eq__, ProvDocument.__eq__,    *)
(* model.py), on model containers.                                         *)
(***************************************************************************)
EXTENDS Containers

AttrSubEq(A, B) == \A x \in A : \E y \in B : Uri(x.a) = Uri(y.a) /\ SetEq(x.v, y.v)
(* identifiers: both absent, or both present with one URI *)
IdEqM(r1, r2) == IF r1.id.ok THEN r2.id.ok /\ Uri(r1.id) = Uri(r2.id) ELSE ~r2.id.ok
RecEqM(r1, r2) ==
  /\ r1.k = r2.k
  /\ IdEqM(r1, r2)
  /\ AttrSubEq(r1.attrs, r2.attrs) /\ AttrSubEq(r2.attrs, r1.attrs)

(* set(records) on both sides, equal sizes, every record of one side matched in *)
(* the other: with RecEqM an equivalence this is equality of the class sets     *)
BundleEqM(c1, c2) ==
  /\ \A i \in 1..Len(c1.recs) : \E j \in 1..Len(c2.recs) : RecEqM(c1.recs[i], c2.recs[j])
  /\ \A j \in 1..Len(c2.recs) : \E i \in 1..Len(c1.recs) : RecEqM(c1.recs[i], c2.recs[j])

DocEqM(ms, h1, h2) ==
  LET c1 == ms.con[h1]
      c2 == ms.con[h2]
  IN /\ c1.kind = c2.kind
     /\ BundleEqM(c1, c2)
     /\ c1.kind = "doc" =>
          /\ Len(c1.bundles) = Len(c2.bundles)
          /\ \A i \in 1..Len(c1.bundles) :
               \E j \in 1..Len(c2.bundles) :
                  LET b1 == ms.con[c1.bundles[i]]
                      b2 == ms.con[c2.bundles[j]]
                  IN b1.id.ok /\ b2.id.ok /\ Uri(b1.id) = Uri(b2.id) /\ BundleEqM(b1, b2)

(* CompareAll(hs): the matrix of == over the listed handles *)
DoCompareAll(ms, a) ==
  [st |-> ms,
   res |-> [i \in 1..Len(a.hs) |-> [j \in 1..Len(a.hs) |-> DocEqM(ms, a.hs[i], a.hs[j])]],
   exc |-> "none"]
=============================================================================
