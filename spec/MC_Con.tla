------------------------------- MODULE MC_Con -------------------------------
(***************************************************************************)
(* (A)+(B) for the container properties (C18, C09, C08, C12): histories of *)
(* record insertion through every path (new_record, add_record, update,    *)
(* add_bundle, constructor records, unified, flattened), bundle creation   *)
(* and namespace declarations over a small world of documents and bundles. *)
(* The scenario fixes the setup and the menu of calls.                     *)
(***************************************************************************)
EXTENDS KnownFindings, Json

CONSTANTS Scenario,    \* "c18" | "c09" | "c08" | "c12"
          MaxDepth,    \* calls after the setup
          Emit, WalkLen

VARIABLES ms, hist
vars == <<ms, hist>>
View == <<ms, Len(hist)>>

A  == <<"a">>
AB == <<"a", "b">>
C  == <<"c">>
X  == <<"x">>
Y  == <<"y">>
BX == <<"b", "x">>

NR(h, k, idn, formals, extras) ==
  [op |-> "NewRec", h |-> h, k |-> k, via |-> "new_record", id |-> idn,
   formals |-> formals, extras |-> extras]
Ref(n) == [t |-> "name", n |-> n]

(* ---- setups ---- *)
(* d1: ex -> A, default C, bundle b1 (ex -> AB, so it shadows; default A); d2: ex -> C *)
SetupWorld ==
  << [op |-> "NewDoc", out |-> "d1"],
     [op |-> "AddNs", h |-> "d1", p |-> "ex", u |-> A],
     [op |-> "NewDoc", out |-> "d2"],
     [op |-> "AddNs", h |-> "d2", p |-> "ex", u |-> C],
     [op |-> "Bundle", h |-> "d1", id |-> NamePL("ex", <<"b1">>), out |-> "b1"] >>
Setup ==
  CASE Scenario = "c18" -> SetupWorld
    [] Scenario = "c09" ->
         SetupWorld \o
         << [op |-> "SetDefault", h |-> "d1", u |-> C],
            [op |-> "AddNs", h |-> "b1", p |-> "ex", u |-> AB],
            [op |-> "SetDefault", h |-> "b1", u |-> A],
            [op |-> "SetDefault", h |-> "d2", u |-> AB],
            [op |-> "NewBundle", id |-> [p |-> "ex", ns |-> A, l |-> <<"b1">>], out |-> "sb"] >>
    [] Scenario = "c18b" ->      \* one identifier names records of several types, in d1 and in b1,
                                 \* inserted against the order of their type URIs; d1 also holds ex:y
         SetupWorld \o
         << NR("d1", "entity", <<NamePL("ex", X)>>, <<>>, <<>>),
            NR("d1", "agent", <<NamePL("ex", X)>>, <<>>, <<>>),
            NR("d1", "entity", <<NamePL("ex", Y)>>, <<>>, <<>>),
            NR("b1", "generation", <<NamePL("ex", X)>>, << <<"entity", Ref(NamePL("ex", Y))>> >>, <<>>),
            NR("b1", "entity", <<NamePL("ex", X)>>, <<>>, <<>>),
            NR("b1", "agent", <<NameQN("zz", A, X)>>, <<>>, <<>>) >>
    [] Scenario = "c18c" ->      \* d1 has a default namespace and a record named in it (bare); b1 has no default
                                 \* of its own yet (it may adopt another one from a prefix-less name later)
         SetupWorld \o
         << [op |-> "SetDefault", h |-> "d1", u |-> A],
            NR("d1", "entity", <<NameBare(X)>>, <<>>, <<>>) >>
    [] Scenario = "c09c" ->      \* d1 (bundle b1 with a record) has ALREADY been flattened once
         SetupWorld \o
         << NR("b1", "entity", <<NameQN("ex", A, X)>>, <<>>, <<>>),
            [op |-> "Flattened", h |-> "d1", out |-> "f0"] >>
    [] Scenario = "c09b" ->      \* d1 and d2 each hold a bundle A/b1; the two bundles share an equal record
         SetupWorld \o
         << [op |-> "Bundle", h |-> "d2", id |-> NameQN("ex", A, <<"b1">>), out |-> "b2"],
            NR("b1", "entity", <<NameQN("ex", A, X)>>, <<>>,
               << <<NameQN("ex", A, <<"attr">>), [t |-> "int", v |-> "1"]>> >>),
            NR("b2", "entity", <<NameQN("ex", A, X)>>, <<>>,
               << <<NameQN("ex", A, <<"attr">>), [t |-> "int", v |-> "1"]>> >>),
            NR("b2", "entity", <<NameQN("ex", A, Y)>>, <<>>, <<>>) >>
    [] Scenario \in {"c08", "c08b"} -> SetupWorld
    [] Scenario = "c08f" ->      \* b1 holds two entity records ex:x and has ALREADY been unified once;
                                 \* then records are changed through their own API
         SetupWorld \o
         << NR("b1", "entity", <<NamePL("ex", X)>>, <<>>, << <<NameQN("ex", A, <<"attr">>), [t |-> "int", v |-> "1"]>> >>),
            NR("b1", "entity", <<NamePL("ex", X)>>, <<>>, <<>>),
            NR("b1", "activity", <<NamePL("ex", Y)>>, <<>>, <<>>),
            NR("b1", "activity", <<NamePL("ex", Y)>>, <<>>, <<>>),
            [op |-> "Unified", h |-> "b1", out |-> "u0"] >>
    [] Scenario = "c08e" ->      \* the FIRST record of a group leaves a formal argument open; later ones may disagree on it
         SetupWorld \o
         << NR("b1", "generation", <<NamePL("ex", <<"g">>)>>, << <<"entity", Ref(NamePL("ex", X))>> >>, <<>>),
            NR("d1", "generation", <<NamePL("ex", <<"g">>)>>, << <<"entity", Ref(NamePL("ex", X))>> >>, <<>>) >>
    [] Scenario = "c08d" ->      \* a second bundle: bundles whose unified contents coincide stay distinct
         SetupWorld \o << [op |-> "Bundle", h |-> "d1", id |-> NameQN("ex", A, <<"b2">>), out |-> "b2"] >>
    [] Scenario = "c08c" ->      \* two kinds already share ex:x in b1, two relation kinds share ex:g in d1
         SetupWorld \o
         << NR("b1", "entity", <<NamePL("ex", X)>>, <<>>,
               << <<NameQN("ex", A, <<"attr">>), [t |-> "int", v |-> "1"]>> >>),
            NR("b1", "agent", <<NamePL("ex", X)>>, <<>>, <<>>),
            NR("b1", "generation", <<>>, << <<"entity", Ref(NamePL("ex", X))>> >>, <<>>),
            NR("d1", "generation", <<NamePL("ex", <<"g">>)>>, << <<"entity", Ref(NamePL("ex", X))>> >>, <<>>),
            NR("d1", "invalidation", <<NamePL("ex", <<"g">>)>>, << <<"entity", Ref(NamePL("ex", X))>> >>, <<>>) >>
    [] Scenario = "c04" ->
         << [op |-> "NewDoc", out |-> "d1"], [op |-> "AddNs", h |-> "d1", p |-> "ex", u |-> A],
            [op |-> "NewDoc", out |-> "d2"], [op |-> "AddNs", h |-> "d2", p |-> "ex", u |-> A],
            [op |-> "NewDoc", out |-> "d3"], [op |-> "AddNs", h |-> "d3", p |-> "e3", u |-> A] >>
    [] Scenario = "c04c" ->     \* lookups that find nothing, literal datatypes under other prefixes / other URIs
         << [op |-> "NewDoc", out |-> "d1"], [op |-> "AddNs", h |-> "d1", p |-> "ex", u |-> A],
            [op |-> "NewDoc", out |-> "d2"], [op |-> "AddNs", h |-> "d2", p |-> "ex", u |-> A],
            [op |-> "NewDoc", out |-> "d3"], [op |-> "AddNs", h |-> "d3", p |-> "e3", u |-> A] >>
    [] Scenario = "c04d" ->     \* equal records whose attributes were stated in different orders (the model state
                                \* cannot tell the orders apart, so the history is fixed in the setup)
         LET a1 == <<NameQN("ex", A, <<"attr">>), [t |-> "int", v |-> "1"]>>
             a2 == <<NameQN("ex", A, <<"attr2">>), [t |-> "str", v |-> "s1"]>>
             a3 == <<NamePL("prov", <<"type">>), [t |-> "name", n |-> NameQN("ex", A, Y)]>>
         IN << [op |-> "NewDoc", out |-> "d1"], [op |-> "AddNs", h |-> "d1", p |-> "ex", u |-> A],
               [op |-> "NewDoc", out |-> "d2"], [op |-> "AddNs", h |-> "d2", p |-> "ex", u |-> A],
               [op |-> "NewDoc", out |-> "d3"], [op |-> "AddNs", h |-> "d3", p |-> "e3", u |-> A],
               NR("d1", "entity", <<NameQN("ex", A, X)>>, <<>>, <<a1, a2, a3>>),
               NR("d2", "entity", <<NameQN("ex", A, X)>>, <<>>, <<a3, a2, a1>>),
               NR("d3", "entity", <<NameQN("e3", A, X)>>, <<>>, <<a2, a1, a3>>) >>
    [] Scenario = "c04b" ->     \* three equal documents; compare, edit through any mutator, compare again
         << [op |-> "NewDoc", out |-> "d1"], [op |-> "AddNs", h |-> "d1", p |-> "ex", u |-> A],
            [op |-> "NewDoc", out |-> "d2"], [op |-> "AddNs", h |-> "d2", p |-> "ex", u |-> A],
            [op |-> "NewDoc", out |-> "d3"], [op |-> "AddNs", h |-> "d3", p |-> "e3", u |-> A] >>
         \o [i \in 1..6 |->
               LET h == <<"d1", "d2", "d3">>[((i - 1) % 3) + 1] IN
               IF i <= 3 THEN NR(h, "activity", <<NameQN("ex", A, Y)>>,
                                 << <<"startTime", [t |-> "dt", v |-> "t1"]>> >>, <<>>)
               ELSE NR(h, "entity", <<NameQN("ex", A, X)>>, <<>>,
                       << <<NameQN("ex", A, <<"attr">>), [t |-> "int", v |-> "1"]>> >>)]
    [] Scenario = "c12" ->       \* (d2 holds a record too: as an add_bundle argument it yields a non-empty bundle)
         SetupWorld \o
         << NR("d1", "entity", <<NamePL("ex", X)>>, <<>>,
               << <<NameQN("ex", A, <<"attr">>), [t |-> "int", v |-> "1"]>> >>),
            NR("b1", "agent", <<NamePL("ex", Y)>>, <<>>, <<>>),
            NR("d2", "entity", <<NamePL("ex", Y)>>, <<>>, <<>>) >>
    [] Scenario = "c12c" ->      \* d1 has a default namespace that a bare name uses; its bundle holds a record
                                 \* under the identifier of a top-level record
         SetupWorld \o
         << [op |-> "SetDefault", h |-> "d1", u |-> C],
            NR("d1", "entity", <<NameBare(X)>>, <<>>, <<>>),
            NR("d1", "entity", <<NamePL("ex", X)>>, <<>>, <<>>),
            NR("b1", "agent", <<NamePL("ex", X)>>, <<>>, <<>>) >>
    [] Scenario = "c12b" ->      \* d2 has a record and a bundle that holds nothing
         SetupWorld \o
         << NR("d2", "entity", <<NamePL("ex", Y)>>, <<>>, <<>>),
            [op |-> "Bundle", h |-> "d2", id |-> NameQN("ex", A, <<"b2">>), out |-> "b2"] >>
NSetup == Len(Setup)

Init == ms = RunF(InitMs("empty"), Setup, NSetup) /\ hist = Setup

Live == {h \in DOMAIN ms.con : ms.con[h].kind # "loose"}
Docs == {h \in Live : ms.con[h].kind = "doc"}
Fresh == "n" \o ToString(Len(hist) + 1)

(* ---- menus ---- *)
IdSpellings == { <<NamePL("ex", X)>>, <<NameQN("zz", A, X)>>, <<NameUri(A \o X)>>,
                 <<NameQN("ex", A, BX)>>, <<NameQN("q", AB, X)>>,
                 <<NameQN("", C, X)>>,        \* a default namespace the container adopts from the name
                 <<NameBare(X)>>,             \* ... or has been given (SetDefault in the c18 menu)
                 <<NameQN("", C, <<"ex">>)>>,  \* a local name that reads like a bound prefix
                 <<NameQN("zz", C, X)>> }      \* a prefix seen before as an alias of another namespace
RecMenu ==
  CASE Scenario \in {"c18", "c18b", "c18c"} ->
         { [k |-> "entity", id |-> i, formals |-> <<>>, extras |-> <<>>] : i \in IdSpellings }
         \cup { [k |-> "agent", id |-> <<NamePL("ex", X)>>, formals |-> <<>>, extras |-> <<>>],
                [k |-> "generation", id |-> <<NamePL("ex", X)>>,
                 formals |-> << <<"entity", Ref(NamePL("ex", Y))>> >>, extras |-> <<>>],
                [k |-> "mention", id |-> <<>>,
                 formals |-> << <<"specificEntity", Ref(NamePL("ex", Y))>>,
                                <<"generalEntity", Ref(NamePL("ex", X))>>,
                                <<"bundle", Ref(NamePL("ex", <<"b1">>))>> >>, extras |-> <<>>],
                [k |-> "usage", id |-> <<>>,
                 formals |-> << <<"activity", Ref(NamePL("ex", Y))>> >>, extras |-> <<>>] }
    [] Scenario = "c09" ->
         { [k |-> "entity", id |-> <<NamePL("ex", X)>>, formals |-> <<>>,
            extras |-> << <<NameBare(<<"attr">>), Ref(NameQN("", AB, Y))>> >>],
           [k |-> "entity", id |-> <<NameBare(X)>>, formals |-> <<>>, extras |-> <<>>],
           \* values that are false in Python (False, the empty string, 0): copying must keep them
           [k |-> "agent", id |-> <<NamePL("ex", Y)>>, formals |-> <<>>,
            extras |-> << <<NameQN("ex", A, <<"flag">>), [t |-> "bool", v |-> "0"]>>,
                          <<NameQN("ex", A, <<"attr">>), [t |-> "str", v |-> "e"]>>,
                          <<NameQN("ex", A, <<"n">>), [t |-> "int", v |-> "0"]>> >>],
           [k |-> "generation", id |-> <<>>,
            formals |-> << <<"entity", Ref(NameBare(X))>>, <<"activity", Ref(NamePL("ex", Y))>> >>,
            extras |-> <<>>] }
    [] Scenario \in {"c08", "c08b", "c08c"} ->
         { [k |-> k, id |-> <<i>>, formals |-> <<>>, extras |-> e]
             : k \in {"entity", "agent"}, i \in {NamePL("ex", X), NameQN("zz", A, X)},
               e \in { <<>>, << <<NameQN("ex", A, <<"attr">>), [t |-> "int", v |-> "1"]>> >>,
                       << <<NameQN("ex", A, <<"attr">>), [t |-> "str", v |-> "s1"]>> >> } }
         \cup
         { [k |-> k, id |-> <<NamePL("ex", <<"g">>)>>,
            formals |-> << <<"entity", Ref(NamePL("ex", e))>> >> \o f, extras |-> <<>>]
             : k \in {"generation", "invalidation"}, e \in {X, Y},
               f \in { <<>>, << <<"time", [t |-> "dt", v |-> "t1"]>> >>,
                             << <<"time", [t |-> "dt", v |-> "t2"]>> >> } }
         \cup
         { [k |-> "generation", id |-> <<>>,
            formals |-> << <<"entity", Ref(NamePL("ex", X))>> >>, extras |-> <<>>] }
    [] Scenario = "c09c" ->
         { [k |-> "entity", id |-> <<NameQN("ex", A, Y)>>, formals |-> <<>>, extras |-> <<>>],
           [k |-> "generation", id |-> <<>>, formals |-> << <<"entity", Ref(NameQN("ex", A, X))>> >>, extras |-> <<>>] }
    [] Scenario = "c09b" ->
         { [k |-> "entity", id |-> <<NameQN("ex", A, X)>>, formals |-> <<>>, extras |-> e]
             : e \in { <<>>, << <<NameQN("ex", A, <<"attr">>), [t |-> "int", v |-> "1"]>> >> } }
         \cup { [k |-> "generation", id |-> <<>>,
                 formals |-> << <<"entity", Ref(NameQN("ex", A, X))>> >>, extras |-> <<>>] }
    [] Scenario = "c08e" ->
         { [k |-> "generation", id |-> <<NamePL("ex", <<"g">>)>>,
            formals |-> << <<"entity", Ref(NamePL("ex", X))>> >> \o f, extras |-> <<>>]
             : f \in { << <<"time", [t |-> "dt", v |-> "t1"]>> >>, << <<"time", [t |-> "dt", v |-> "t2"]>> >>,
                       << <<"activity", Ref(NamePL("ex", Y))>> >>, << <<"activity", Ref(NamePL("ex", <<"z">>))>> >> } }
    [] Scenario = "c08d" ->
         { [k |-> "entity", id |-> <<NamePL("ex", X)>>, formals |-> <<>>, extras |-> e]
             : e \in { <<>>, << <<NameQN("ex", A, <<"attr">>), [t |-> "int", v |-> "1"]>> >> } }
         \cup
         { [k |-> "generation", id |-> <<NamePL("ex", <<"g">>)>>,
            formals |-> << <<"entity", Ref(NamePL("ex", X))>> >> \o f, extras |-> <<>>]
             : f \in { <<>>, << <<"time", [t |-> "dt", v |-> "t1"]>> >> } }
    [] Scenario = "c04" ->
         { [k |-> "entity", id |-> <<NameQN("zz", A, X)>>, formals |-> <<>>, extras |-> <<>>],
           [k |-> "entity", id |-> <<NameQN("ex", A, X)>>, formals |-> <<>>,
            extras |-> << <<NameQN("ex", A, <<"attr">>), [t |-> "int", v |-> "1"]>> >>],
           [k |-> "entity", id |-> <<NameQN("ex", A, X)>>, formals |-> <<>>,
            extras |-> << <<NameQN("ex", A, <<"attr">>), [t |-> "int", v |-> "7"]>> >>],
           [k |-> "agent", id |-> <<NameQN("ex", A, X)>>, formals |-> <<>>, extras |-> <<>>],
           [k |-> "entity", id |-> <<NameQN("ex", A, Y)>>, formals |-> <<>>, extras |-> <<>>],
           [k |-> "generation", id |-> <<>>, formals |-> << <<"entity", Ref(NameQN("ex", A, X))>> >>, extras |-> <<>>],
           [k |-> "generation", id |-> <<NameQN("ex", A, <<"g">>)>>,
            formals |-> << <<"entity", Ref(NameQN("ex", A, X))>> >>, extras |-> <<>>],
           [k |-> "generation", id |-> <<>>, formals |-> << <<"entity", Ref(NameQN("ex", A, Y))>> >>, extras |-> <<>>] }
    [] Scenario = "c04b" -> {}
    [] Scenario = "c04d" -> {}
    [] Scenario = "c04c" ->
         { [k |-> "entity", id |-> <<NameQN("ex", A, X)>>, formals |-> <<>>,
            extras |-> << <<NameQN("ex", A, <<"attr">>), [t |-> "lit", v |-> "s1", dt |-> QN(d[1], d[2], <<"dtype">>)]>> >>]
             : d \in { <<"ex", A>>, <<"e3", A>>, <<"q", A>>, <<"q", C>> } }
         \cup { [k |-> "entity", id |-> <<NameQN("ex", A, X)>>, formals |-> <<>>, extras |-> <<>>] }
         \* the same two attributes stated in either order
         \cup { [k |-> "entity", id |-> <<NameQN("ex", A, X)>>, formals |-> <<>>, extras |-> e]
                  : e \in { << <<NameQN("ex", A, <<"attr">>), [t |-> "int", v |-> "1"]>>,
                               <<NameQN("ex", A, <<"attr2">>), [t |-> "str", v |-> "s1"]>> >>,
                            << <<NameQN("ex", A, <<"attr2">>), [t |-> "str", v |-> "s1"]>>,
                               <<NameQN("ex", A, <<"attr">>), [t |-> "int", v |-> "1"]>> >> } }
    [] Scenario \in {"c12", "c12b", "c12c"} ->
         { [k |-> "entity", id |-> <<NamePL("ex", <<"z">>)>>, formals |-> <<>>,     \* a literal with an application datatype
            extras |-> << <<NameQN("ex", A, <<"attr">>), [t |-> "lit", v |-> "s1", dt |-> QN("ex", A, <<"dtype">>)]>> >>],
           [k |-> "entity", id |-> <<NamePL("ex", Y)>>, formals |-> <<>>, extras |-> <<>>],
           [k |-> "entity", id |-> <<NamePL("ex", X)>>, formals |-> <<>>,
            extras |-> << <<NameQN("ex", A, <<"attr">>), [t |-> "int", v |-> "0"]>> >>] }

Targets ==
  CASE Scenario = "c08" -> {"d1", "b1"}
    [] Scenario = "c08b" -> {"b1"}
    [] Scenario = "c08c" -> {"b1"}
    [] Scenario = "c08d" -> {"b1", "b2"}
    [] Scenario = "c08e" -> {"b1", "d1"}
    [] Scenario = "c09b" -> {"b1", "b2", "d1"}
    [] Scenario = "c09c" -> {"b1", "d1", "f0"}
    [] OTHER -> Live

ActsNewRec == { NR(h, t.k, t.id, t.formals, t.extras) : h \in Targets \cap Live, t \in RecMenu }
RecHandles == UNION { {[c |-> h, i |-> i] : i \in 1..(IF Len(ms.con[h].recs) > 2 THEN 2 ELSE Len(ms.con[h].recs))} : h \in DOMAIN ms.con }
ActsAddRecord == { [op |-> "AddRecord", h |-> h, r |-> r] : h \in Live, r \in RecHandles }
ActsUpdate == { a \in { [op |-> "Update", h |-> h, other |-> o] : h \in Live, o \in Live } : a.h # a.other }
Standalone == {h \in Live : ms.con[h].doc = "" /\ (ms.con[h].kind = "bun" \/ h \in {"d1", "d2"})}
ActsAddBundle ==
  { a \in { [op |-> "AddBundle", h |-> h, arg |-> g, id |-> i, out |-> Fresh]
             : h \in Docs, g \in Standalone,
               i \in { <<>>, <<NamePL("ex", <<"b1">>)>>, <<NameQN("ex", A, <<"b2">>)>> } } : a.h # a.arg }
ActsBundle == { [op |-> "Bundle", h |-> h, id |-> i, out |-> Fresh]
                  : h \in Docs, i \in { NamePL("ex", <<"b1">>), NameQN("ex", A, <<"b2">>) } }
ActsDerive == { [op |-> o, h |-> h, out |-> Fresh]
                  : o \in {"Flattened", "Unified", "DocFromRecs"}, h \in Live }
ActsGet == { [op |-> "GetRecord", h |-> h, id |-> i[1]] : h \in Live, i \in IdSpellings }
ActsNs == { [op |-> "AddNs", h |-> h, p |-> "ex", u |-> u] : h \in Live, u \in {AB} }
          \cup { [op |-> "SetDefault", h |-> h, u |-> A] : h \in {x \in Live : ms.mgr[ms.con[x].mgr].dflt \in {NONE, A}} }
ActsCopy == { [op |-> "CopyRec", r |-> r, out |-> Fresh] : r \in RecHandles }
ActsMutate ==   \* C12 follow-up mutators on any live object
  { [op |-> "AddAttrs", r |-> r, form |-> "pairs",
     pairs |-> << <<NameQN("ex", A, <<"attr">>), [t |-> "int", v |-> "7"]>> >>] : r \in RecHandles }
  \cup { [op |-> "AddAttrs", r |-> r, form |-> "pairs",      \* a name in a namespace nobody has registered yet
           pairs |-> << <<NameQN("mut", AB, <<"attr">>), [t |-> "int", v |-> "7"]>> >>] : r \in RecHandles }
  \cup { [op |-> "AddNs", h |-> h, p |-> "mut", u |-> C] : h \in Live }
  \cup { [op |-> "SetDefault", h |-> h, u |-> AB] : h \in {x \in Live : ms.mgr[ms.con[x].mgr].dflt \in {NONE, AB}} }

ActsBundle04 == { [op |-> "Bundle", h |-> h, id |-> NameQN("ex", A, <<b>>), out |-> h \o b]
                    : h \in Docs \cap {"d1", "d2"}, b \in {"b1", "b2"} }     \* (same number of bundles, other names)
ActsCompare == { [op |-> "CompareAll", hs |-> <<"d1", "d2", "d3">>] }
ActsGet04 == { [op |-> "GetRecord", h |-> h, id |-> i] : h \in {"d1", "d2", "d3"},
               i \in { NameQN("ex", A, <<"nope">>), NameUri(A \o X) } }
ActsEdit04 ==
  { [op |-> "SetTime", r |-> [c |-> h, i |-> 1], start |-> s, end |-> e]
      : h \in {"d1", "d2", "d3"}, s \in {<<>>, <<[t |-> "dt", v |-> "t2"]>>},
        e \in {<<[t |-> "dt", v |-> "t2"]>>} }
  \cup { [op |-> "AddType", r |-> [c |-> h, i |-> i], v |-> [t |-> "name", n |-> NameQN("prov", ProvNS, <<"Plan">>)]]
           : h \in {"d1", "d2", "d3"}, i \in {1, 2} }
  \cup { [op |-> "AddAttrs", r |-> [c |-> h, i |-> 2], form |-> "pairs",
           pairs |-> << <<NameQN("ex", A, <<"attr">>), [t |-> "int", v |-> "7"]>> >>] : h \in {"d1", "d2", "d3"} }
Compared == Len(hist) > NSetup /\ hist[Len(hist)].op = "CompareAll"
Menu ==
  CASE Scenario = "c04" -> IF Compared THEN {} ELSE ActsNewRec \cup ActsBundle04 \cup ActsCompare
    [] Scenario = "c04d" -> IF Compared THEN {} ELSE ActsCompare
    [] Scenario = "c04b" -> ActsEdit04 \cup (IF Compared THEN {} ELSE ActsCompare)
    [] Scenario = "c04c" -> IF Compared THEN {} ELSE ActsNewRec \cup ActsGet04 \cup ActsCompare
    [] Scenario \in {"c18", "c18b", "c18c"} -> {[op |-> "SetDefault", h |-> h, u |-> C] : h \in {x \in Live : ms.mgr[ms.con[x].mgr].dflt \in {NONE, C}}}
                           \cup ActsNewRec \cup ActsAddRecord \cup ActsUpdate \cup ActsAddBundle
                           \cup ActsDerive \cup ActsGet
    [] Scenario = "c09b" -> ActsNewRec \cup ActsUpdate \cup {a \in ActsDerive : a.op = "Flattened"}
    [] Scenario = "c09c" -> ActsNewRec \cup {a \in ActsDerive : a.op = "Flattened"} \cup {a \in ActsUpdate : a.h = "d1"}
    [] Scenario = "c09" -> ActsNewRec \cup ActsUpdate \cup ActsAddBundle \cup ActsBundle
                           \cup {a \in ActsDerive : a.op = "Flattened"}
    [] Scenario = "c08f" ->
         { [op |-> "AddAttrs", r |-> [c |-> "b1", i |-> i], form |-> "pairs",
            pairs |-> << <<NameQN("ex", A, <<"attr">>), [t |-> "int", v |-> "7"]>> >>] : i \in {1, 2} }
         \cup { [op |-> "SetTime", r |-> [c |-> "b1", i |-> i], start |-> <<[t |-> "dt", v |-> tt]>>, end |-> <<>>]
                  : i \in {3, 4}, tt \in {"t1", "t2"} }
         \cup { [op |-> "AddType", r |-> [c |-> "b1", i |-> 2], v |-> [t |-> "name", n |-> NameQN("prov", ProvNS, <<"Plan">>)]] }
         \cup {a \in ActsDerive : a.op = "Unified" /\ a.h \in {"b1", "d1"}}
    [] Scenario \in {"c08", "c08b", "c08c", "c08d", "c08e"} -> ActsNewRec \cup {a \in ActsDerive : a.op = "Unified"}
    \* (here a default namespace may also be set a second time, to another URI: C12 has no usage discipline)
    [] Scenario = "c12c" -> ActsDerive \cup ActsMutate \cup ActsUpdate \cup ActsCopy \cup ActsAddRecord
                            \cup {[op |-> "SetDefault", h |-> h, u |-> AB] : h \in Live}
    [] Scenario = "c12b" -> ActsNewRec \cup ActsDerive \cup ActsMutate \cup ActsUpdate
    [] Scenario = "c12" -> ActsNewRec \cup ActsAddRecord \cup ActsUpdate \cup ActsAddBundle
                           \cup ActsDerive \cup ActsMutate \cup ActsCopy
                           \cup {a \in ActsBundle : a.h = "d2"}        \* (an empty bundle in d2)

(* documents are only derived from containers (flattened/unified are document or bundle methods) *)
Applicable(a) ==
  CASE a.op = "Flattened"   -> ms.con[a.h].kind = "doc"
    [] a.op = "DocFromRecs" -> TRUE
    [] OTHER -> TRUE

Step(a) == /\ Len(hist) < NSetup + MaxDepth
           /\ ms' = ApplyF(ms, a).st
           /\ hist' = Append(hist, a)
           /\ IF Emit = "all" \/ (Emit = "walk" /\ Len(hist') = WalkLen)
              THEN PrintT("TR " \o ToJson(hist')) ELSE TRUE

Next == \E a \in Menu : Applicable(a) /\ Step(a)
Spec == Init /\ [][Next]_vars

(* The observed step the model itself would log for the transition just taken *)
ObsCon(st) == [h \in DOMAIN st.con |->
                 [ProjCon(st.con[h]) EXCEPT !.recs = [i \in 1..Len(@) |-> [@[i] EXCEPT !.attrs = SetToSeq(@)]]]]
(* (A) for C04: the library's == (Eq.tla) is reflexive, symmetric, transitive and is *)
(* content equivalence, on every reachable triple of documents                       *)
PropC04 ==
  [][LET a == hist'[Len(hist')] IN
     a.op = "CompareAll" =>
       LET r == ApplyF(ms, a)
           o == [op |-> a, exc |-> "none",
                 res |-> [eq |-> r.res, ne |-> [i \in 1..3 |-> [j \in 1..3 |-> ~r.res[i][j]]], rec |-> <<>>],
                 post |-> [con |-> ObsCon(ms)]]
       IN \A cl \in {C04_refl(o), C04_sym(o), C04_ne(o), C04_trans(o), C04_content(o)} : cl.ok]_vars

IndexOK == \A h \in DOMAIN ms.con : ms.con[h].kind # "loose" => IndexCoherent(ms.con[h])
=============================================================================
