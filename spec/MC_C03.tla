------------------------------- MODULE MC_C03 -------------------------------
(***************************************************************************)
(* (A)+(B) for C03: every interleaving of add_namespace,                   *)
(* set_default_namespace and valid_qualified_name (QualifiedName objects,  *)
(* 'p:l' strings, bare locals, full URIs) on a document ("doc") and a      *)
(* bundle of it ("bun"), up to MaxDepth calls.                             *)
(***************************************************************************)
EXTENDS KnownFindings, Json

CONSTANTS MaxDepth,     \* number of calls
          UsePrefixes,     \* prefixes used by the calls ("" = default namespace)
          Preset,       \* "none" | "dflt": the document and its bundle have both been given the default namespace C
          UriSet,       \* "app": application namespaces; "builtin": the PROV / XSD namespace URIs as well
          Emit,         \* "all": print one TR line per explored transition; "walk": final steps of walks
          WalkLen       \* length of a finished walk (simulation)

VARIABLES ms, hist
vars == <<ms, hist>>
View == <<ms, Len(hist)>>

A  == <<"a">>
AB == <<"a", "b">>
C  == <<"c">>
NsURIs == IF UriSet = "builtin" THEN {A, ProvNS, XsdNS}
          ELSE IF UriSet = "hash" THEN {A, <<"a", "hash">>, C}      \* "http://a.example/" and "http://a.example/#"
          ELSE {A, AB, C}
(* in the run over the built-in namespaces the local parts contain a colon (ex:u:x is a legal spelling *)
(* of the name with local part "u:x"; a 'prefix:local' string is cut at its FIRST colon)               *)
Lx == IF UriSet = "builtin" THEN <<"u:x">> ELSE <<"x">>
Locals == {Lx, <<"b">> \o Lx}
Scopes == {"doc", "bun"}

StrForms == {StrPL(p, l) : p \in UsePrefixes \ {""}, l \in Locals}
            \cup {StrBare(l) : l \in Locals}
            \cup {StrUri(u \o Lx) : u \in NsURIs}

PreActs == IF Preset = "dflt"
           THEN << [op |-> "SetDefault", h |-> "doc", u |-> C], [op |-> "SetDefault", h |-> "bun", u |-> C] >>
           ELSE <<>>
Init == /\ ms = RunF(InitMs("docbun"), PreActs, Len(PreActs))
        /\ hist = PreActs

ActsAddNs      == {[op |-> "AddNs", h |-> h, p |-> p, u |-> u] :
                     h \in Scopes, p \in UsePrefixes \ {""}, u \in NsURIs}
(* usage discipline of the property: a default is never re-bound to another URI *)
ActsSetDefault == {[op |-> "SetDefault", h |-> h, u |-> u] : h \in Scopes, u \in NsURIs}
DisciplineOK(a) == ms.mgr[MgrOf(ms, a.h)].dflt \in {NONE, a.u}
ActsResQN      == {[op |-> "ResQN", h |-> h, p |-> p, ns |-> u, l |-> l] :
                     h \in Scopes, p \in UsePrefixes, u \in NsURIs, l \in Locals}
ActsResStr     == {[op |-> "ResStr", h |-> h, str |-> s] : h \in Scopes, s \in StrForms}

Step(a) == /\ Len(hist) < MaxDepth + Len(PreActs)
           /\ ms' = ApplyF(ms, a).st
           /\ hist' = Append(hist, a)
           /\ IF Emit = "all" \/ (Emit = "walk" /\ Len(hist') = WalkLen + Len(PreActs))
              THEN PrintT("TR " \o ToJson(hist')) ELSE TRUE

AddNs      == \E a \in ActsAddNs : Step(a)
SetDefault == \E a \in ActsSetDefault : DisciplineOK(a) /\ Step(a)
ResQN      == \E a \in ActsResQN : Step(a)
ResStr     == \E a \in ActsResStr : ResolveStrF(ms.mgr, MgrOf(ms, a.h), a.str).ok /\ Step(a)

Next == AddNs \/ SetDefault \/ ResQN \/ ResStr
Spec == Init /\ [][Next]_vars

(* Emit = "walk" (simulation mode): TLC evaluates the action for every candidate  *)
(* successor of a visited state, so the final step of each random walk prints all *)
(* its alternatives; the harness keeps one per walk.                              *)

(* The observed step the model itself would log for the transition just taken *)
Obs == LET a == hist'[Len(hist')]
           r == ApplyF(ms, a)
       IN [op |-> a, exc |-> r.exc, res |-> r.res,
           pre |-> [ns |-> ProjAllNs(ms)], post |-> [ns |-> ProjAllNs(r.st)],
           parents |-> Parents(ms), reres |-> SetToSeq(ReRes(r.st))]

Holds(cl, o) == cl.ok \/ KnownFinding(o, cl.c) # ""
PropC03a == [][LET o == Obs IN Holds(C03a(o), o)]_vars
PropC03b == [][LET o == Obs IN Holds(C03b(o), o)]_vars
PropC03c == [][LET o == Obs IN Holds(C03c(o), o)]_vars
(* the same without the known finding: must FAIL on the model (sanity, run by selftest) *)
PropC03cStrict == [][LET o == Obs IN C03c(o).ok]_vars

=============================================================================
