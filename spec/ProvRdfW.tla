------------------------------ MODULE ProvRdfW ------------------------------
(***************************************************************************)
(* The PROV-O (RDF) writer of the library (serializers/provrdf.py:         *)
(* encode_document / encode_container / encode_rdf_representation),        *)
(* transcribed over the model state, in an abstract form that is free of   *)
(* blank-node names:                                                       *)
(*   graph = [id: URI | NONE (the document's own graph),                   *)
(*            plain: set of [s, p, o]          (subject and object named), *)
(*            stars: Seq of [s, q, props]      one per blank node: the      *)
(*                    triple (s, q, _:b) and the set of [p, o] on _:b]      *)
(*   term  = [k: "uri" | "lit", u: URI segments, dt: datatype URI, lang,   *)
(*            v: value token]                                              *)
(* AbsR (harness/lex_rdf.py: rdflib parses the TriG text, nothing else)    *)
(* brings the text the library really wrote into the same form; M_Rdf      *)
(* compares them (conformance, drift only).  Transcribed for the PROV-O    *)
(* expressible space of C07 (first two formal arguments present, no        *)
(* mention); prefix bindings of the TriG text are not modelled.            *)
(***************************************************************************)
EXTENDS ProvXmlW

RdfTypeP  == <<"?http://www.w3.org/1999/02/22-rdf-syntax-ns#type">>
RdfsLabel == <<"?http://www.w3.org/2000/01/rdf-schema#label">>
PU(l) == <<"prov#", l>>
XU(l) == <<"xsd#", l>>
KindType == [ entity |-> "Entity", activity |-> "Activity", agent |-> "Agent", generation |-> "Generation",
              usage |-> "Usage", communication |-> "Communication", start |-> "Start", end |-> "End",
              invalidation |-> "Invalidation", derivation |-> "Derivation", attribution |-> "Attribution",
              association |-> "Association", delegation |-> "Delegation", influence |-> "Influence",
              specialization |-> "Specialization", alternate |-> "Alternate", mention |-> "Mention",
              membership |-> "Membership" ]

TUri(u) == [k |-> "uri", u |-> u, dt |-> <<>>, lang |-> "", v |-> ""]
TLit(v, dt, lang) == [k |-> "lit", u |-> <<>>, dt |-> dt, lang |-> lang, v |-> v]
(* encode_rdf_representation *)
RTerm(v) ==
  CASE v.t = "qn"    -> TUri(Uri(v.q))
    [] v.t = "uri"   -> [k |-> "lit", u |-> v.u, dt |-> XU("anyURI"), lang |-> "", v |-> ""]
    [] v.t = "dt"    -> TLit(v.v, XU("dateTime"), "")
    [] v.t \in {"str", "isostr"} -> TLit(v.v, XU("string"), "")
    [] v.t = "int"   -> TLit(v.v, XU("int"), "")
    [] v.t = "float" -> TLit(v.v, XU("double"), "")
    [] v.t = "bool"  -> TLit(v.v, XU("boolean"), "")
    [] v.t = "lang"  -> TLit(v.v, <<>>, v.lang)
    [] v.t = "lit"   -> TLit(v.v, Uri(v.dt), "")
T3(s, p, o) == [s |-> s, p |-> p, o |-> o]

(* an element: its type, and one triple per attribute value *)
ElPred(a) ==
  LET u == Uri(a) IN
  IF u = PU("type") THEN RdfTypeP
  ELSE IF u = PU("label") THEN RdfsLabel
  ELSE IF u = PU("location") THEN PU("atLocation")
  ELSE IF u = PU("startTime") THEN PU("startedAtTime")
  ELSE IF u = PU("endTime") THEN PU("endedAtTime")
  ELSE u
ElTriples(rec) ==
  LET id == Uri(rec.id) IN
  {T3(id, RdfTypeP, TUri(PU(KindType[rec.k])))} \cup {T3(id, ElPred(x.a), RTerm(x.v)) : x \in rec.attrs}

(* the predicate a qualified relation carries an attribute under: attr2rdf / the named cases / the *)
(* attribute's own URI, then the rewrites by relation kind                                         *)
QPred(k, a) ==
  LET u  == Uri(a)
      l  == IF Len(u) = 2 /\ u[1] = "prov#" THEN u[2] ELSE ""
      p0 == IF l \in SeqToSet(Formals[k]) THEN PU(l)
            ELSE IF l = "role" THEN PU("hadRole")
            ELSE IF l = "plan" THEN PU("hadPlan")
            ELSE IF l = "type" THEN RdfTypeP
            ELSE IF l = "label" THEN RdfsLabel
            ELSE u
      l0 == IF Len(p0) = 2 /\ p0[1] = "prov#" THEN p0[2] ELSE ""
      p1 == IF l0 = "plan" THEN PU("hadPlan")
            ELSE IF l0 = "informant" THEN PU("activity")
            ELSE IF l0 = "responsible" THEN PU("agent")
            ELSE IF k = "delegation" /\ l0 = "activity" THEN PU("hadActivity")
            ELSE IF k \in {"end", "start"} /\ l0 = "trigger" THEN PU("entity")
            ELSE p0
      l1 == IF Len(p1) = 2 /\ p1[1] = "prov#" THEN p1[2] ELSE ""
      p2 == IF k \in {"generation", "end", "start", "usage", "invalidation"}
            THEN (IF l1 = "time" THEN PU("atTime")
                  ELSE IF l1 \in {"ender", "starter"} THEN PU("hadActivity")
                  ELSE IF l1 = "location" THEN PU("atLocation") ELSE p1)
            ELSE IF k = "derivation"
            THEN (IF l1 = "activity" THEN PU("hadActivity")
                  ELSE IF l1 = "generation" THEN PU("hadGeneration")
                  ELSE IF l1 = "usage" THEN PU("hadUsage")
                  ELSE IF l1 = "usedEntity" THEN PU("entity") ELSE p1)
            ELSE p1
  IN p2

PlainKinds7 == {"end", "start", "usage", "generation", "derivation", "association", "invalidation"}
(* a relation: [plain: set of triples, stars: Seq of stars] *)
RelEnc(rec) ==
  LET k   == rec.k
      fs  == Formals[k]
      fv(i) == ValuesOf(rec, PU(fs[i]))                     \* value set of the i-th formal
      has(i) == fv(i) # {}
      val(i) == CHOOSE v \in fv(i) : TRUE
      extras == {x \in rec.attrs : ~(\E i \in 1..Len(fs) : Uri(x.a) = PU(fs[i]))}
      hasId == rec.id.ok
      formalQ == \E i \in 1..Len(fs) : has(i) /\ (hasId \/ i > 2)
      hasQ == extras # {} \/ formalQ
      subj == Uri(val(1).q)
      obj2 == RTerm(val(2))
      presentIdx == {i \in 1..Len(fs) : has(i)}
      plainOK == ~hasId /\ has(2) /\ (k \notin PlainKinds7 \/ (presentIdx = {1, 2} /\ extras = {}))
      relP == PU(PNameOf[k])
      plain == IF plainOK
               THEN (IF k = "alternate" THEN {T3(Uri(val(2).q), relP, TUri(subj))} ELSE {T3(subj, relP, obj2)})
               ELSE {}
      \* the attributes still to be said about the qualified node: everything but the first formal
      \* (and the second when the plain triple already said it)
      used == {PU(fs[1])} \cup (IF plainOK THEN {PU(fs[2])} ELSE {})
      rest == {x \in rec.attrs : Uri(x.a) \notin used}
      subT == {x \in extras : Uri(x.a) = PU("type") /\ x.v.t = "qn"
                              /\ Uri(x.v.q) \in {PU("Revision"), PU("Quotation"), PU("PrimarySource")}}
      qual == IF subT = {} THEN KindType[k] ELSE Uri((CHOOSE x \in subT : TRUE).v.q)[2]
      qrole == PU("qualified" \o qual)
      props == {[p |-> QPred(k, x.a), o |-> RTerm(x.v)] : x \in rest}
  IN IF k = "alternate"
     THEN [plain |-> plain \cup (IF hasId THEN {T3(Uri(rec.id), RdfTypeP, TUri(PU("Alternate")))} ELSE {}), stars |-> <<>>]
     ELSE IF hasId
     THEN [plain |-> (IF subT = {} THEN {T3(Uri(rec.id), RdfTypeP, TUri(PU(KindType[k])))} ELSE {})
                     \cup {T3(subj, qrole, TUri(Uri(rec.id)))}
                     \cup {T3(Uri(rec.id), pr.p, pr.o) : pr \in props},
           stars |-> <<>>]
     ELSE IF hasQ
     THEN [plain |-> plain,
           stars |-> <<[s |-> subj, q |-> qrole,
                        props |-> props \cup {[p |-> RdfTypeP, o |-> TUri(PU(qual))]}]>>]
     ELSE [plain |-> plain, stars |-> <<>>]

RdfExpressibleRec(rec) ==
  rec.k \in Elements \/ (rec.k # "mention" /\ ValuesOf(rec, PU(Formals[rec.k][1])) # {} /\ ValuesOf(rec, PU(Formals[rec.k][2])) # {})
EncGraph(recs, gid) ==
  LET encs == [i \in 1..Len(recs) |->
                 IF recs[i].k \in Elements THEN [plain |-> ElTriples(recs[i]), stars |-> <<>>] ELSE RelEnc(recs[i])]
  IN [id |-> gid,
      plain |-> UNION {encs[i].plain : i \in 1..Len(recs)},
      stars |-> FlattenSeq([i \in 1..Len(recs) |-> encs[i].stars])]
EncRdf(ms, h) ==
  <<EncGraph(ms.con[h].recs, NONE)>> \o
  [i \in 1..Len(ms.con[h].bundles) |->
     LET b == ms.con[ms.con[h].bundles[i]] IN EncGraph(b.recs, Uri(b.id))]
RdfExpressible(ms, h) ==
  /\ \A i \in 1..Len(ms.con[h].recs) : RdfExpressibleRec(ms.con[h].recs[i])
  /\ \A j \in 1..Len(ms.con[h].bundles) :
        LET b == ms.con[ms.con[h].bundles[j]] IN \A i \in 1..Len(b.recs) : RdfExpressibleRec(b.recs[i])

(* the lexed text in the same form: lex_rdf.py already groups by graph and blank node *)
AbsRTerm(t) == [k |-> t.k, u |-> t.u, dt |-> t.dt, lang |-> t.lang, v |-> t.v]
AbsRGraph(g) ==
  [id |-> g.id,
   plain |-> {T3(g.plain[i][1], g.plain[i][2], AbsRTerm(g.plain[i][3])) : i \in 1..Len(g.plain)},
   stars |-> [i \in 1..Len(g.stars) |->
                [s |-> g.stars[i].s, q |-> g.stars[i].q,
                 props |-> {[p |-> g.stars[i].props[j][1], o |-> AbsRTerm(g.stars[i].props[j][2])]
                              : j \in 1..Len(g.stars[i].props)}]]]
SameRGraph(a, b) == a.id = b.id /\ a.plain = b.plain /\ BagEqSeq(a.stars, b.stars)
(* graphs with nothing in them do not exist in RDF; graphs of one name are one graph *)
SameRdf(obs, enc) ==
  LET nonempty(gs) == SelectSeq(gs, LAMBDA g : g.plain # {} \/ g.stars # <<>>) IN
  /\ Len(nonempty(obs)) = Len(nonempty(enc))
  /\ \A i \in 1..Len(obs) : (obs[i].plain # {} \/ obs[i].stars # <<>>) =>
        \E j \in 1..Len(enc) : SameRGraph(obs[i], enc[j])
=============================================================================
