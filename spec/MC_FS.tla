-------------------------------- MODULE MC_FS --------------------------------
(***************************************************************************)
(* (A) for C17: every crash point x pre-existing file or not x same or     *)
(* other file system x file-name class, for the protocol variant Variant.  *)
(***************************************************************************)
EXTENDS FS, Json
CONSTANTS Variant, Emit
VARIABLES fs, cfg, hist
vars == <<fs, cfg, hist>>
View == <<fs, cfg>>
NameClasses == {"plain", "space", "nonascii", "hash", "query", "semi", "colon", "subdir", "percent", "abs"}
V == IF Variant = "repaired" THEN Repaired ELSE Original
Init == /\ cfg \in [name : NameClasses, existing : BOOLEAN, crossFs : BOOLEAN, nchunks : 1..3]
        /\ fs = FsInit(cfg.existing)
        /\ hist = <<>>
Next == \E n \in FsNextStates(V, fs, cfg.name, cfg.crossFs, cfg.nchunks) :
          /\ fs' = n /\ cfg' = cfg /\ hist' = Append(hist, n.pc)
Spec == Init /\ [][Next]_vars
Atomic == AtomicOK(fs)
Exact == ExactOK(fs)
(* a failure never makes the named file worse than it was, and success is reachable *)
NoDamage == fs.pc = "failed" => fs.named \in {IF cfg.existing THEN "old" ELSE "absent", "new"}
=============================================================================
