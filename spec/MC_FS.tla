-------------------------------- MODULE MC_FS --------------------------------
(***************************************************************************)
(* (A) for C17: every crash point x pre-existing file or not x same or     *)
(* other file system x file-name class, for the protocol variant Variant.  *)
(***************************************************************************)
EXTENDS FS, Json
CONSTANTS Variant, Emit
VARIABLES fs, cfg, hist
vars == <<fs, cfg, hist>>
View == <<fs, cfg>>
NameClasses == {"plain", "space", "nonascii", "hash", "query", "semi", "colon", "scheme", "subdir", "percent", "abs"}
V == IF Variant = "repaired" THEN Repaired ELSE Original
Formats == {"json", "xml", "provn", "rdf"}
(* the k-th write (nothing / half / all but one byte reaches the disk), transient or persistent *)
(* (every later write and the flush of close() fail too); the final flush of close(); the move  *)
Faults == {<<>>} \cup {<<[at |-> "move", k |-> 0, short |-> "none", persist |-> p]>> : p \in BOOLEAN}   \* (refused once / every time)
          \cup {<<[at |-> "write", k |-> k, short |-> sh, persist |-> p]>> : k \in 1..4, sh \in {"none", "half", "most"}, p \in BOOLEAN}
          \cup {<<[at |-> "close", k |-> 0, short |-> sh, persist |-> FALSE]>> : sh \in {"none", "half"}}
(* (B): every configuration x crash point as one Save call for the driver *)
SaveActs(c) == { [op |-> "Save", fmt |-> f, name |-> c.name, existing |-> c.existing,
                  crossFs |-> c.crossFs, fault |-> ft] : f \in Formats, ft \in Faults }
Init == /\ cfg \in [name : NameClasses, existing : BOOLEAN, crossFs : BOOLEAN, nchunks : 1..3]
        /\ fs = FsInit(cfg.existing)
        /\ hist = <<>>
        /\ (Emit = "all" /\ cfg.nchunks = 1) => \A a \in SaveActs(cfg) : PrintT("TR " \o ToJson(<<a>>))
Next == \E n \in FsNextStates(V, fs, cfg.name, cfg.crossFs, cfg.nchunks) :
          /\ fs' = n /\ cfg' = cfg /\ hist' = Append(hist, n.pc)
Spec == Init /\ [][Next]_vars
Atomic == AtomicOK(fs)
Exact == ExactOK(fs)
(* a failure never makes the named file worse than it was, and success is reachable *)
NoDamage == fs.pc \in {"failed", "cleaned"} => fs.named \in {IF cfg.existing THEN "old" ELSE "absent", "new"}
=============================================================================
