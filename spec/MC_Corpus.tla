------------------------------ MODULE MC_Corpus ------------------------------
(* (B) for the corpus half of C11: every corpus file x every single-point mutation *)
(* kind as one Corpus call for the driver.                                          *)
EXTENDS Naturals, Sequences, TLC, Json
CONSTANTS NJson, NXml, Emit
VARIABLES done
JsonMuts == {"none", "reorder", "wrap", "recarr", "rename", "tobundle"}
XmlMuts == {"none"}
Init == /\ done = FALSE
        /\ (Emit = "all") =>
             /\ \A i \in 1..NJson, m \in JsonMuts :
                   PrintT("TR " \o ToJson(<<[op |-> "Corpus", fmt |-> "json", idx |-> i, mut |-> m]>>))
             /\ \A i \in 1..NXml, m \in XmlMuts :
                   PrintT("TR " \o ToJson(<<[op |-> "Corpus", fmt |-> "xml", idx |-> i, mut |-> m]>>))
Next == done' = TRUE /\ ~done
Spec == Init /\ [][Next]_done
=============================================================================
