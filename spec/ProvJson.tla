------------------------------ MODULE ProvJson ------------------------------
(***************************************************************************)
(* The PROV-JSON writer of the library (serializers/provjson.py:           *)
(* encode_json_document / encode_json_container /                          *)
(* encode_json_representation), transcribed over the model state, in an    *)
(* abstract JSON form AJ that keeps exactly what the writer decides:       *)
(*   container = [pfx: set of <<prefix, URI>>, dflt: URI | NONE,           *)
(*                recs: Seq([kind: JSON key, id: idnode, body: set of      *)
(*                           [key: [p, l], vals: set of valnode,           *)
(*                            list: written as a JSON array])])]           *)
(*   idnode  = [blank: TRUE] | [blank: FALSE, p, l]                         *)
(*   valnode = [j: "str", v] | [j: "bool", v] | [j: "name", p, l]           *)
(*           | [j: "iso", v] | [j: "lang", v, lang]                         *)
(*           | [j: "typed", tp: [p, l], lex: lexnode]                       *)
(*   lexnode = [k: "num", v, isint] | [k: "str", v] | [k: "iso", v]         *)
(*           | [k: "uri", u] | [k: "name", p, l]                            *)
(* AbsJ maps the lexed text (lex_json.py) to the same form, purely           *)
(* syntactically; M_Json compares the two (conformance).  ReadAJ reads AJ   *)
(* as the PROV-JSON submission says, so that TLC can check on the MODEL     *)
(* that what the writer emits denotes the source document.                  *)
(***************************************************************************)
EXTENDS Prov, SpecJson

JName == [ entity |-> "entity", activity |-> "activity", agent |-> "agent",
           generation |-> "wasGeneratedBy", usage |-> "used", communication |-> "wasInformedBy",
           start |-> "wasStartedBy", end |-> "wasEndedBy", invalidation |-> "wasInvalidatedBy",
           derivation |-> "wasDerivedFrom", attribution |-> "wasAttributedTo",
           association |-> "wasAssociatedWith", delegation |-> "actedOnBehalfOf",
           influence |-> "wasInfluencedBy", specialization |-> "specializationOf",
           alternate |-> "alternateOf", mention |-> "mentionOf", membership |-> "hadMember" ]

PL(q) == [p |-> q.p, l |-> q.l]
TypedV(p, l, lex) == [j |-> "typed", tp |-> [p |-> p, l |-> <<l>>], lex |-> lex]

(* encode_json_representation *)
EncVal(v) ==
  CASE v.t = "str"    -> [j |-> "str", v |-> v.v]
    [] v.t = "isostr" -> [j |-> "isostr", v |-> v.v]
    [] v.t = "bool"   -> [j |-> "bool", v |-> v.v]
    [] v.t = "int"    -> TypedV("xsd", "int", [k |-> "num", v |-> v.v, isint |-> TRUE])
    [] v.t = "float"  -> TypedV("xsd", "double", [k |-> "num", v |-> v.v, isint |-> FALSE])
    [] v.t = "dt"     -> TypedV("xsd", "dateTime", [k |-> "iso", v |-> v.v])
    [] v.t = "uri"    -> TypedV("xsd", "anyURI", [k |-> "uri", u |-> v.u])
    [] v.t = "qn"     -> TypedV("prov", "QUALIFIED_NAME", [k |-> "name", p |-> v.q.p, l |-> v.q.l])
    [] v.t = "lang"   -> [j |-> "lang", v |-> v.v, lang |-> v.lang]
    [] v.t = "lit"    -> [j |-> "typed", tp |-> PL(v.dt), lex |-> [k |-> "str", v |-> v.v]]

EncBody(rec) ==
  LET keys == {Uri(x.a) : x \in rec.attrs}
      keyQ(u) == (CHOOSE x \in rec.attrs : Uri(x.a) = u).a
      vals(u) == {x.v : x \in {y \in rec.attrs : Uri(y.a) = u}}
  IN { LET q == keyQ(u)
           vs == vals(u)
       IN IF IsRefAttr(q)
          THEN [key |-> PL(q), list |-> FALSE,
                vals |-> {LET w == CHOOSE x \in vs : TRUE IN [j |-> "name", p |-> w.q.p, l |-> w.q.l]}]
          ELSE IF IsTimeAttr(q)
          THEN [key |-> PL(q), list |-> FALSE, vals |-> {[j |-> "iso", v |-> (CHOOSE x \in vs : TRUE).v]}]
          ELSE [key |-> PL(q), list |-> Cardinality(vs) > 1, vals |-> {EncVal(x) : x \in vs}]
     : u \in keys }
EncRec(rec) == [kind |-> JName[rec.k],
                id |-> IF rec.id.ok THEN [blank |-> FALSE, p |-> rec.id.p, l |-> rec.id.l] ELSE [blank |-> TRUE],
                body |-> EncBody(rec)]
EncContainer(ms, h) ==
  LET c == ms.con[h]
      st == ms.mgr[c.mgr]
      (* the "prefix" block as written: registered namespaces, then the key "default" for the     *)
      (* default namespace -- which overwrites a namespace registered under the prefix `default'  *)
      raw == IF st.dflt = NONE THEN SeqToSet(st.reg)
             ELSE {e \in SeqToSet(st.reg) : e[1] # "default"} \cup {<<"default", st.dflt>>}
  IN [pfx |-> {e \in raw : e[1] # "default"},
      dflt |-> IF \E e \in raw : e[1] = "default" THEN (CHOOSE e \in raw : e[1] = "default")[2] ELSE NONE,
      \* the order of the keys of the block (a reader registers them in this order)
      pfxseq |-> SelectSeq(st.reg, LAMBDA e : e[1] # "default"),
      recs |-> [i \in 1..Len(c.recs) |-> EncRec(c.recs[i])]]
EncAJ(ms, h) ==
  [top |-> EncContainer(ms, h),
   bundles |-> [i \in 1..Len(ms.con[h].bundles) |->
                  LET b == ms.con[h].bundles[i] IN
                  [id |-> PL(ms.con[b].id), con |-> EncContainer(ms, b)]]]

(* ---- the lexed text in the same form (syntactic only) ---- *)
NameOf(s) == IF s.j # "str" THEN [p |-> "?", l |-> <<>>] ELSE IF s.qn = <<>> THEN [p |-> "?", l |-> <<>>] ELSE s.qn[1]
AbsLex(tp, n) ==
  IF n.j = "num" THEN [k |-> "num", v |-> n.v, isint |-> n.isint]
  ELSE IF tp = [p |-> "xsd", l |-> <<"dateTime">>] THEN [k |-> "iso", v |-> n.iso]
  ELSE IF tp = [p |-> "xsd", l |-> <<"anyURI">>] THEN [k |-> "uri", u |-> n.uri]
  ELSE IF tp = [p |-> "prov", l |-> <<"QUALIFIED_NAME">>] THEN [k |-> "name", p |-> NameOf(n).p, l |-> NameOf(n).l]
  ELSE [k |-> "str", v |-> n.v]
AbsVal(n) ==
  CASE n.j = "str"  -> IF n.iso # "" /\ n.v \notin {"s1", "s2", "e", "nq"}
                       THEN [j |-> "isostr", v |-> n.iso] ELSE [j |-> "str", v |-> n.v]
    [] n.j = "bool" -> [j |-> "bool", v |-> n.v]
    [] n.j = "obj"  -> IF JHas(n, "lang") THEN [j |-> "lang", v |-> Get(n, "$").v, lang |-> Get(n, "lang").raw]
                       ELSE LET tp == NameOf(Get(n, "type")) IN
                            [j |-> "typed", tp |-> tp, lex |-> AbsLex(tp, Get(n, "$"))]
    [] OTHER -> [j |-> "other"]
AbsBody(b) ==
  { LET key == NameOf(b.items[i][1])
        v == b.items[i][2]
        formal == key.p = "prov" /\ Len(key.l) = 1 /\ key.l[1] \in JRefAttrs \cup JTimeAttrs
    IN IF formal /\ key.l[1] \in JRefAttrs /\ v.j = "str"
       THEN [key |-> key, list |-> v.j = "arr", vals |-> {[j |-> "name", p |-> NameOf(v).p, l |-> NameOf(v).l]}]
       ELSE IF formal /\ key.l[1] \in JTimeAttrs /\ v.j = "str"
       THEN [key |-> key, list |-> v.j = "arr", vals |-> {[j |-> "iso", v |-> v.iso]}]
       ELSE [key |-> key, list |-> v.j = "arr",
             vals |-> IF v.j = "arr" THEN {AbsVal(v.items[k]) : k \in 1..Len(v.items)} ELSE {AbsVal(v)}]
    : i \in 1..Len(b.items) }
RECURSIVE AbsKinds(_, _)
AbsKinds(c, i) ==
  IF i > Len(c.items) THEN <<>>
  ELSE LET key == c.items[i][1].raw
           m == c.items[i][2]
       IN (IF key \in DOMAIN JKind
           THEN FlattenSeq([r \in 1..Len(m.items) |->
                  LET idn == m.items[r][1]
                      bs == Bodies(m.items[r][2])
                  IN [n \in 1..Len(bs) |->
                        [kind |-> key,
                         id |-> IF IsBlank(idn) THEN [blank |-> TRUE]
                                ELSE [blank |-> FALSE, p |-> NameOf(idn).p, l |-> NameOf(idn).l],
                         body |-> AbsBody(bs[n])]]])
           ELSE <<>>) \o AbsKinds(c, i + 1)
AbsContainer(c) ==
  LET sc == ScopeOf(c) IN
  [pfx |-> {<<p, sc.pfx[p]>> : p \in DOMAIN sc.pfx}, dflt |-> sc.dflt, recs |-> AbsKinds(c, 1)]
AbsJ(tree) ==
  LET bs == IF JHas(tree, "bundle") THEN Get(tree, "bundle").items ELSE <<>> IN
  [top |-> AbsContainer(tree),
   bundles |-> [i \in 1..Len(bs) |-> [id |-> NameOf(bs[i][1]), con |-> AbsContainer(bs[i][2])]]]

BagEqSeq(s1, s2) == /\ Len(s1) = Len(s2)
                    /\ \A x \in SeqToSet(s1) \cup SeqToSet(s2) :
                         Cardinality({i \in 1..Len(s1) : s1[i] = x}) = Cardinality({i \in 1..Len(s2) : s2[i] = x})
SameAJCon(a, b) == a.pfx = b.pfx /\ a.dflt = b.dflt /\ BagEqSeq(a.recs, b.recs)
SameAJ(a, b) ==
  /\ SameAJCon(a.top, b.top)
  /\ Len(a.bundles) = Len(b.bundles)
  /\ \A i \in 1..Len(a.bundles) : \E j \in 1..Len(b.bundles) :
        a.bundles[i].id = b.bundles[j].id /\ SameAJCon(a.bundles[i].con, b.bundles[j].con)

(* ---- reading AJ as the PROV-JSON submission says (for the model-level check) ---- *)
AJScope(c) == [pfx |-> [p \in {e[1] : e \in c.pfx} |-> (CHOOSE e \in c.pfx : e[1] = p)[2]], dflt |-> c.dflt]
AJVal(v, inner, outer) ==
  CASE v.j = "str"  -> [t |-> "str", v |-> v.v]
    [] v.j = "isostr" -> [t |-> "isostr", v |-> v.v]
    [] v.j = "bool" -> [t |-> "bool", v |-> v.v]
    [] v.j = "name" -> [t |-> "qn", u |-> JNameUri([p |-> v.p, l |-> v.l], inner, outer)]
    [] v.j = "iso"  -> [t |-> "dt", v |-> v.v]
    [] v.j = "lang" -> [t |-> "lang", v |-> v.v, lang |-> v.lang]
    [] v.j = "typed" ->
         LET dt == JNameUri(v.tp, inner, outer)
             x == XsdT(dt)
         IN IF dt = NONE THEN Bad("unbound datatype")
            ELSE IF x = "int" THEN [t |-> "int", v |-> v.lex.v]
            ELSE IF x = "double" THEN [t |-> "float", v |-> v.lex.v]
            ELSE IF x = "dateTime" THEN [t |-> "dt", v |-> v.lex.v]
            ELSE IF x = "anyURI" THEN [t |-> "uri", u |-> v.lex.u]
            ELSE IF dt = <<"prov#", "QUALIFIED_NAME">>
                 THEN [t |-> "qn", u |-> JNameUri([p |-> v.lex.p, l |-> v.lex.l], inner, outer)]
            ELSE [t |-> "lit", v |-> v.lex.v, dt |-> dt]
ReadAJCon(c, inner, outer) ==
  [i \in 1..Len(c.recs) |->
     LET r == c.recs[i] IN
     [k |-> JKind[r.kind],
      id |-> IF r.id.blank THEN NONE ELSE JNameUri([p |-> r.id.p, l |-> r.id.l], inner, outer),
      attrs |-> UNION {{[a |-> JNameUri(e.key, inner, outer), v |-> AJVal(w, inner, outer)] : w \in e.vals} : e \in r.body}]]
ReadAJ(aj) ==
  LET top == AJScope(aj.top)
      none == [pfx |-> <<>>, dflt |-> NONE]
  IN [recs |-> ReadAJCon(aj.top, top, none),
      bundles |-> [i \in 1..Len(aj.bundles) |->
                     LET sc == AJScope(aj.bundles[i].con) IN
                     [id |-> JNameUri(aj.bundles[i].id, sc, top),
                      recs |-> ReadAJCon(aj.bundles[i].con, sc, top)]]]
(***************************************************************************)
(* The PROV-JSON READER of the library (decode_json_document /             *)
(* decode_json_container / decode_json_representation), transcribed: what   *)
(* it does is a sequence of public calls on a fresh document - register     *)
(* the prefixes in the order of the block, set the default namespace,       *)
(* create each record with new_record from names given as STRINGS and       *)
(* values decoded from their JSON form, create each bundle attached to the  *)
(* document, fill it, and add it under its identifier resolved in the       *)
(* bundle's scope - so it is expressed with the operators of the model      *)
(* itself (ApplyF).  DecJ(aj) = [st: model state holding the document read  *)
(* under the handle "~r" (bundles "~r+<i>"), exc].                          *)
(* Used for: the model-level round trip JsonRoundTrip (MC_Ser) and the      *)
(* conformance clause M_JsonBack (the document the real reader returned,    *)
(* namespaces included, is the one this transcription produces).            *)
(***************************************************************************)
RECURSIVE RunX(_, _, _)
RunX(ms, acts, i) ==
  IF i > Len(acts) THEN [st |-> ms, exc |-> "none"]
  ELSE IF acts[i].op = "Raise" THEN [st |-> ms, exc |-> "ProvException"]
  ELSE LET r == ApplyF(ms, acts[i]) IN
       IF r.exc # "none" THEN [st |-> r.st, exc |-> r.exc] ELSE RunX(r.st, acts, i + 1)

RName(n) == IF n.p = "" THEN NameBare(n.l) ELSE NamePL(n.p, n.l)
(* the namespace a 'prefix:local' datatype string resolves to in container h (valid_qualified_name) *)
RStr(n) == IF n.p = "" THEN StrBare(n.l) ELSE StrPL(n.p, n.l)
(* decode_json_representation, as an input value of new_record *)
DecVal(ms, h, v) ==
  CASE v.j = "str"    -> [t |-> "str", v |-> v.v]
    [] v.j = "isostr" -> [t |-> "isostr", v |-> v.v]
    [] v.j = "bool"   -> [t |-> "bool", v |-> v.v]
    [] v.j = "lang"   -> [t |-> "lang", v |-> v.v, lang |-> v.lang]
    [] v.j = "typed"  ->
         LET dq == ResolveStrF(ms.mgr, MgrOf(ms, h), RStr(v.tp))
             du == IF dq.ok THEN Uri(dq) ELSE NONE
         IN IF du = <<"xsd#", "anyURI">> THEN [t |-> "uri", u |-> v.lex.u]
            ELSE IF du = <<"prov#", "QUALIFIED_NAME">>
                 THEN \* resolved here, handed on as a QualifiedName OBJECT (validating it again may adopt a
                      \* default namespace); a name that does not resolve is None and new_record skips the pair
                      (LET q == ResolveStrF(ms.mgr, MgrOf(ms, h), RStr([p |-> v.lex.p, l |-> v.lex.l])) IN
                       IF q.ok THEN [t |-> "name", n |-> NameQN(q.p, q.ns, q.l)] ELSE [t |-> "skip"])
            ELSE IF du = <<"xsd#", "int">> THEN [t |-> "nlit", T |-> "int", v |-> v.lex.v]
            ELSE IF du = <<"xsd#", "double">> THEN [t |-> "nlit", T |-> "double", v |-> v.lex.v]
            ELSE IF du = <<"xsd#", "dateTime">> THEN [t |-> "nlit", T |-> "dateTime", v |-> v.lex.v]
            ELSE IF ~dq.ok THEN [t |-> "str", v |-> v.lex.v]          \* Literal(value, None): a plain string
            ELSE [t |-> "lit", v |-> v.lex.v, dt |-> dq]
DecRecAct(ms, h, r) ==
  LET body   == SetToSeq(r.body)
      isF(e) == e.key.p = "prov" /\ Len(e.key.l) = 1 /\ e.key.l[1] \in JRefAttrs \cup JTimeAttrs
      one(e) == CHOOSE w \in e.vals : TRUE
      rq(n) == ResolveStrF(ms.mgr, MgrOf(ms, h), RStr(n))
      asObj(n) == LET q == rq(n) IN NameQN(q.p, q.ns, q.l)
      fval(e) == IF e.key.l[1] \in JTimeAttrs THEN [t |-> "dt", v |-> one(e).v]
                 ELSE [t |-> "name", n |-> asObj([p |-> one(e).p, l |-> one(e).l])]
      \* a formal reference that does not resolve is None: the argument is simply absent
      fok(e) == e.key.l[1] \in JTimeAttrs \/ ResolveStrF(ms.mgr, MgrOf(ms, h), RStr([p |-> one(e).p, l |-> one(e).l])).ok
      fidx   == SelectSeq([i \in 1..Len(body) |-> i], LAMBDA i : isF(body[i]) /\ fok(body[i]))
      oidx   == SelectSeq([i \in 1..Len(body) |-> i], LAMBDA i : ~isF(body[i]))
      \* the key is resolved first and handed on as an object; an unresolvable key makes new_record raise
      keyOf(e) == IF rq(e.key).ok THEN asObj(e.key) ELSE [rep |-> "bad"]
      extrasOf(e) == LET vs == SetToSeq(e.vals)
                         ds == [k \in 1..Len(vs) |-> <<keyOf(e), DecVal(ms, h, vs[k])>>]
                     IN SelectSeq(ds, LAMBDA d : d[2].t # "skip")
      badKey == \E i \in 1..Len(body) : ~isF(body[i]) /\ ~rq(body[i].key).ok
  IN IF badKey THEN [op |-> "Raise"] ELSE
     [op |-> "NewRec", h |-> h, k |-> JKind[r.kind], via |-> "new_record",
      id |-> IF r.id.blank THEN <<>> ELSE <<RName([p |-> r.id.p, l |-> r.id.l])>>,
      formals |-> [i \in 1..Len(fidx) |-> <<body[fidx[i]].key.l[1], fval(body[fidx[i]])>>],
      extras |-> FlattenSeq([i \in 1..Len(oidx) |-> extrasOf(body[oidx[i]])])]
DecCon(ms, h, c) ==
  \* prefixes the enclosing document binds to another namespace (they will be renamed here) come last,
  \* so that the name generated for them cannot collide with another prefix of the block
  LET anc    == AncTbl(ms.mgr, MgrOf(ms, h))
      late(e) == InheritedDifferently(anc, e[1], e[2])
      ordered == SelectSeq(c.pfxseq, LAMBDA e : ~late(e)) \o SelectSeq(c.pfxseq, LAMBDA e : late(e))
      nsActs == [i \in 1..Len(ordered) |-> [op |-> "AddNs", h |-> h, p |-> ordered[i][1], u |-> ordered[i][2]]]
                \o (IF c.dflt # NONE THEN <<[op |-> "SetDefault", h |-> h, u |-> c.dflt]>> ELSE <<>>)
      r1 == RunX(ms, nsActs, 1)
  IN IF r1.exc # "none" THEN r1
     ELSE RunX(r1.st, [i \in 1..Len(c.recs) |-> DecRecAct(r1.st, h, c.recs[i])], 1)
RH == "~r"
RBun(i) == RH \o "+" \o ToString(i)
RECURSIVE DecBundles(_, _, _)
DecBundles(ms, bs, i) ==
  IF i > Len(bs) THEN [st |-> ms, exc |-> "none"]
  ELSE LET b  == RBun(i)
           \* ProvBundle(document=document): linked to the document's manager, not yet listed in it
           s0 == [ms EXCEPT !.mgr = (b :> MgrInit(ms.con[RH].mgr)) @@ @,
                            !.con = (b :> ConInit("bun", b, NoQN, RH)) @@ @]
           r1 == DecCon(s0, b, bs[i].con)
       IN IF r1.exc # "none" THEN r1
          ELSE \* the key is resolved (as a string) in the bundle's scope, and the QualifiedName obtained
               \* is what add_bundle validates - which registers its namespace in the bundle
               LET q  == ResolveStrF(r1.st.mgr, MgrOf(r1.st, b), RStr(bs[i].id))
                   r2 == IF q.ok THEN AddBundleF(r1.st, RH, b, <<NameQN(q.p, q.ns, q.l)>>, "~unused")
                         ELSE Raise(r1.st, "ProvException")         \* add_bundle(bundle, None)
               IN IF r2.exc # "none" THEN [st |-> r2.st, exc |-> r2.exc] ELSE DecBundles(r2.st, bs, i + 1)
DecJ(aj) ==
  LET s0 == DoNewDoc(InitEmpty, [out |-> RH]).st
      r1 == DecCon(s0, RH, aj.top)
  IN IF r1.exc # "none" THEN r1 ELSE DecBundles(r1.st, aj.bundles, 1)

(* a document of a model state in the shape a reader returns (records with attribute SETS, bundles by id) *)
RdOf(st, h) ==
  LET recsOf(c) == [i \in 1..Len(c.recs) |-> ProjRec(c.recs[i])] IN
  [recs |-> recsOf(st.con[h]), ns |-> ProjNs(st.mgr[st.con[h].mgr]),
   bundles |-> [i \in 1..Len(st.con[h].bundles) |->
                  LET b == st.con[st.con[h].bundles[i]] IN
                  [id |-> IF b.id.ok THEN Uri(b.id) ELSE NONE, recs |-> recsOf(b), ns |-> ProjNs(st.mgr[b.mgr])]]]
=============================================================================
