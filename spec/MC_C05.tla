------------------------------- MODULE MC_C05 -------------------------------
(***************************************************************************)
(* (A)+(B) for C05: one record of every kind, constructed with its formal  *)
(* arguments in every accepted representation, followed by up to           *)
(* MaxFollow calls of add_attributes (dict / pair list), set_time,         *)
(* add_asserted_type on it, with same / different second values.           *)
(***************************************************************************)
EXTENDS KnownFindings, Json

CONSTANTS MaxFollow,   \* follow-up calls after the construction
          UseKinds,    \* record kinds to construct
          Emit,        \* "all": one TR line per explored transition; "walk": final steps of walks
          WalkLen      \* length (calls incl. setup) of a finished walk (simulation)

VARIABLES ms, hist
vars == <<ms, hist>>
View == <<ms, Len(hist)>>

A == <<"a">>
C == <<"c">>
X == <<"x">>
Y == <<"y">>

(* the world every behaviour starts from: namespace ex, a default namespace, *)
(* an entity ex:x (record 1) and an activity ex:y (record 2) to refer to     *)
Setup == << [op |-> "AddNs", h |-> "doc", p |-> "ex", u |-> A],
            [op |-> "SetDefault", h |-> "doc", u |-> C],
            [op |-> "NewRec", h |-> "doc", k |-> "entity", via |-> "new_record",
             id |-> <<NamePL("ex", X)>>, formals |-> <<>>, extras |-> <<>>],
            [op |-> "NewRec", h |-> "doc", k |-> "activity", via |-> "new_record",
             id |-> <<NamePL("ex", Y)>>, formals |-> <<>>, extras |-> <<>>] >>
NSetup == Len(Setup)
Target == [c |-> "doc", i |-> 3]

Init == ms = RunF(InitMs("doc"), Setup, NSetup) /\ hist = Setup

(* a reference to ex:x in every accepted representation; `d' = a different one *)
RefSame == { [t |-> "name", n |-> NameQN("ex", A, X)],
             [t |-> "name", n |-> NameQN("other", A, X)],
             [t |-> "name", n |-> NamePL("ex", X)],
             [t |-> "name", n |-> NameUri(A \o X)],
             [t |-> "name", n |-> [rep |-> "rec", r |-> [c |-> "doc", i |-> 1]]] }
RefDiff == { [t |-> "name", n |-> NameQN("ex", A, Y)],
             [t |-> "name", n |-> NamePL("ex", Y)],
             [t |-> "name", n |-> NameBare(X)],
             [t |-> "name", n |-> [rep |-> "rec", r |-> [c |-> "doc", i |-> 2]]] }
(* (a time given as a typed literal is not among the representations C05 claims; the readers' use of *)
(* it is exercised by C11, flag timetype)                                                          *)
(* ... but whatever arrives, a time-valued formal holds a datetime afterwards: literals that convert to *)
(* a datetime or to its ISO text are driven as well                                                    *)
TimeSame == { [t |-> "dt", v |-> "t1"], [t |-> "iso", v |-> "t1"], [t |-> "nlit", T |-> "dateTime", v |-> "t1"],
              [t |-> "isolit", v |-> "t1", typed |-> TRUE] }
TimeDiff == { [t |-> "dt", v |-> "t2"], [t |-> "iso", v |-> "t2"], [t |-> "isolit", v |-> "t2", typed |-> FALSE] }
Same(f) == IF f \in TimeAttrs THEN TimeSame ELSE RefSame
Diff(f) == IF f \in TimeAttrs THEN TimeDiff ELSE RefDiff

(* construction schemes: which formals are present, and how they are written *)
Scheme == {"qn", "pl", "rec"}
SchemeVal(f, s) ==
  IF f \in TimeAttrs THEN (IF s = "qn" THEN [t |-> "dt", v |-> "t1"] ELSE [t |-> "iso", v |-> "t1"])
  ELSE CASE s = "qn"  -> [t |-> "name", n |-> NameQN("ex", A, X)]
         [] s = "pl"  -> [t |-> "name", n |-> NamePL("ex", X)]
         [] s = "rec" -> [t |-> "name", n |-> [rep |-> "rec", r |-> [c |-> "doc", i |-> 1]]]
Masks(k) == LET n == Len(Formals[k]) IN {0, IF n >= 2 THEN 2 ELSE n, n}
FormalKey(f) == { NameQN("prov", ProvNS, <<f>>), NamePL("prov", <<f>>) }
FormalKVs(k) == UNION { {<<key, v>> : key \in FormalKey(f), v \in Same(f) \cup Diff(f)}
                          : f \in SeqToSet(Formals[k]) }
FormalDiff1(k) == { <<f, CHOOSE d \in Diff(f) : TRUE>> : f \in SeqToSet(Formals[k]) }

NewActs(k) ==
  { [op |-> "NewRec", h |-> "doc", k |-> k, via |-> via,
     id |-> IF k \in Elements \/ idp THEN <<NamePL("ex", <<"r">>)>> ELSE <<>>,
     formals |-> [i \in 1..m |-> <<Formals[k][i], SchemeVal(Formals[k][i], s)>>],
     extras |-> <<>>]
    : via \in {"new_record", "factory"}, idp \in BOOLEAN, m \in Masks(k), s \in Scheme }
  \cup
  { [op |-> "NewRec", h |-> "doc", k |-> k, via |-> via, id |-> <<NamePL("ex", <<"r">>)>>,
     formals |-> [i \in 1..Len(Formals[k]) |-> <<Formals[k][i], SchemeVal(Formals[k][i], "qn")>>],
     extras |-> << <<IF kq THEN NameQN("prov", ProvNS, <<fv[1]>>) ELSE NamePL("prov", <<fv[1]>>), fv[2]>> >>]
    : via \in {"new_record", "factory"}, kq \in BOOLEAN,
      fv \in {x \in FormalDiff1(k) : ~(k = "membership" /\ x[1] = "entity")} }   \* (the unclaimed path)

(* the typed convenience factories, with other_attributes as a pair list that repeats a name *)
SubNewActs(k) ==
  LET two == << <<NameQN("ex", A, <<"attr">>), [t |-> "str", v |-> "s1"]>>,
                <<NameQN("ex", A, <<"attr">>), [t |-> "int", v |-> "7"]>> >>
      vias == IF k = "derivation" THEN {"revision", "quotation", "primary_source"}
              ELSE IF k = "entity" THEN {"collection"} ELSE {}
  IN { [op |-> "NewRec", h |-> "doc", k |-> k, via |-> via, id |-> <<NamePL("ex", <<"r">>)>>,
        formals |-> [i \in 1..m |-> <<Formals[k][i], SchemeVal(Formals[k][i], "pl")>>],
        extras |-> e]
       : via \in vias, m \in IF k = "entity" THEN {0} ELSE {2, Len(Formals[k])}, e \in {<<>>, two} }

ExtraName == { NameQN("ex", A, <<"attr">>), NamePL("ex", <<"attr">>), NameBare(<<"attr">>) }
ExtraVals ==
  { [t |-> "str", v |-> "s1"], [t |-> "int", v |-> "1"], [t |-> "float", v |-> "h"],
    [t |-> "bool", v |-> "1"], [t |-> "dt", v |-> "t1"], [t |-> "uri", u |-> A \o X],
    [t |-> "name", n |-> NameQN("ex", A, X)], [t |-> "name", n |-> NameQN("zz", C, X)],
    [t |-> "lang", v |-> "s1", lang |-> "en"],
    [t |-> "lit", v |-> "s1", dt |-> QN("ex", A, <<"dtype">>)],
    [t |-> "nlit", T |-> "string", v |-> "s1"], [t |-> "nlit", T |-> "double", v |-> "h"],
    [t |-> "nlit", T |-> "double", v |-> "1"],     \* integral double: lexical form "1", "1.0" or "1.0...e+00"
    [t |-> "nlit", T |-> "long", v |-> "7"], [t |-> "nlit", T |-> "int", v |-> "1"],
    [t |-> "nlit", T |-> "boolean", v |-> "1"], [t |-> "nlit", T |-> "dateTime", v |-> "t1"],
    [t |-> "nlit", T |-> "anyURI", u |-> A \o X], [t |-> "plit", v |-> "s1"] }


FollowActs(k) ==
  (* one formal pair: same or different value, key as object or as 'prov:f' string *)
  { [op |-> "AddAttrs", r |-> Target, form |-> form, pairs |-> <<kv>>]
      : form \in {"dict", "pairs"}, kv \in FormalKVs(k) }
  \cup
  (* one extra pair *)
  { [op |-> "AddAttrs", r |-> Target, form |-> "pairs", pairs |-> <<<<key, v>>>>]
      : key \in ExtraName, v \in ExtraVals }
  \cup
  (* two pairs: an extra followed by a conflicting formal (partial application) *)
  { [op |-> "AddAttrs", r |-> Target, form |-> "pairs",
     pairs |-> << <<NameQN("ex", A, <<"attr2">>), [t |-> "int", v |-> "7"]>>,
                  <<NameQN("prov", ProvNS, <<fv[1]>>), fv[2]>> >>]
      : fv \in FormalDiff1(k) }
  \cup
  (* the same formal twice in one call, same value first then a different one *)
  { [op |-> "AddAttrs", r |-> Target, form |-> "pairs",
     pairs |-> << <<NameQN("prov", ProvNS, <<fv[1]>>), CHOOSE v \in Same(fv[1]) : TRUE>>,
                  <<NamePL("prov", <<fv[1]>>), fv[2]>> >>]
      : fv \in FormalDiff1(k) }
  \cup
  (IF k = "activity"
   THEN { [op |-> "SetTime", r |-> Target, start |-> s, end |-> e]
            \* (set_time is documented for datetimes and ISO strings; literals are not driven through it)
            : s \in {<<>>} \cup {<<v>> : v \in {w \in TimeSame \cup TimeDiff : w.t \in {"dt", "iso"}}},
              e \in {<<>>, <<[t |-> "dt", v |-> "t2"]>>} } \ {[op |-> "SetTime", r |-> Target, start |-> <<>>, end |-> <<>>]}
   ELSE {})
  \cup
  { [op |-> "AddType", r |-> Target, v |-> v]
      : v \in { [t |-> "name", n |-> NameQN("prov", ProvNS, <<"Person">>)], [t |-> "str", v |-> "s1"] } }

Step(a) == /\ ms' = ApplyF(ms, a).st
           /\ hist' = Append(hist, a)
           /\ IF Emit = "all" \/ (Emit = "walk" /\ Len(hist') = WalkLen)
              THEN PrintT("TR " \o ToJson(hist')) ELSE TRUE

New == /\ Len(hist) = NSetup
       /\ \E k \in UseKinds : \E a \in NewActs(k) \cup SubNewActs(k) : Step(a)
Follow == /\ Len(hist) > NSetup /\ Len(hist) < NSetup + 1 + MaxFollow
          /\ Len(ms.con["doc"].recs) = 3          \* the construction succeeded
          /\ \E a \in FollowActs(hist[NSetup + 1].k) : Step(a)
Next == New \/ Follow
Spec == Init /\ [][Next]_vars

(* Emit = "walk" (simulation mode): TLC evaluates the action for every candidate  *)
(* successor of a visited state, so the final step of each random walk prints all *)
(* its alternatives; the harness keeps one per walk.                              *)

Obs == LET a == hist'[Len(hist')]
           r == ApplyF(ms, a)
       IN [op |-> a, exc |-> r.exc, res |-> r.res,
           pre |-> [ns |-> ProjAllNs(ms), con |-> [h \in DOMAIN ms.con |->
                     [recs |-> [i \in 1..Len(ms.con[h].recs) |->
                        [ProjRec(ms.con[h].recs[i]) EXCEPT !.attrs = SetToSeq(@)]]]]],
           post |-> [ns |-> ProjAllNs(r.st), con |-> [h \in DOMAIN r.st.con |->
                     [recs |-> [i \in 1..Len(r.st.con[h].recs) |->
                        [ProjRec(r.st.con[h].recs[i]) EXCEPT !.attrs = SetToSeq(@)]]]]],
           parents |-> Parents(ms), reres |-> <<>>]

Holds(cl, o) == cl.ok \/ KnownFinding(o, cl.c) # ""
AllHold == [][LET o == Obs IN \A cl \in C05Clauses(o) : Holds(cl, o)]_vars
PropC05_single     == [][LET o == Obs IN Holds(C05_single(o), o)]_vars
PropC05_typed      == [][LET o == Obs IN Holds(C05_typed(o), o)]_vars
PropC05_refuse     == [][LET o == Obs IN o.op.op \in {"AddAttrs", "SetTime"} => Holds(C05_refuse(o), o)]_vars
PropC05_idem       == [][LET o == Obs IN o.op.op \in {"AddAttrs", "SetTime"} => Holds(C05_idem(o), o)]_vars
PropC05_accumulate == [][LET o == Obs IN o.op.op = "AddAttrs" => Holds(C05_accumulate(o), o)]_vars
PropC05_new        == [][LET o == Obs IN o.op.op = "NewRec" => Holds(C05_new(o), o)]_vars
PropC05_exact      == [][LET o == Obs IN o.op.op \in {"NewRec", "AddAttrs"} => Holds(C05_exact(o), o)]_vars
IndexOK == \A h \in DOMAIN ms.con : ms.con[h].kind # "loose" => IndexCoherent(ms.con[h])
=============================================================================
