SPECIFICATION Spec
VIEW View
CONSTANTS
  MaxDepth = 4
  UsePrefixes = {"ex", "dn", ""}
  Emit = FALSE
PROPERTY PropC03a
PROPERTY PropC03b
PROPERTY PropC03c
CHECK_DEADLOCK FALSE
