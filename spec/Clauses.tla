------------------------------- MODULE Clauses -------------------------------
(***************************************************************************)
(* The listed properties, written once, as operators over an *observed     *)
(* step*: the call (step.op), its outcome (step.exc, step.res) and what    *)
(* the public API shows before and after it (step.pre, step.post, ...).    *)
(* They never look at the model state, so on a recorded execution of the   *)
(* real library they judge the library, not the model; the MC_ modules applies    *)
(* the same operators to the model's own projection (Obs).                 *)
(*                                                                         *)
(* Every clause yields [c |-> id, ok |-> holds, nv |-> antecedent held]    *)
(***************************************************************************)
EXTENDS Prov

Cl(id, nv, ok) == [c |-> id, ok |-> (~nv) \/ ok, nv |-> nv]

IsFunctional(pairs) == \A e1, e2 \in pairs : e1[1] = e2[1] => e1 = e2

-----------------------------------------------------------------------------
(* C03 — qualified names keep their URI and stay unambiguous               *)
(* step.pre/post.ns[h] = [reg: Seq(<<prefix, uri>>), dflt: uri or NONE]    *)
(* step.reres = Seq([s, str, uri, now]) : every name scope s handed out so *)
(* far (printed form, URI at hand-out) and what it resolves to now         *)

(* (a) resolving a QualifiedName never changes its URI *)
C03a(step) ==
  Cl("C03a", step.op.op = "ResQN",
     step.exc = "none" /\ step.res.ok /\ Uri(step.res) = step.op.ns \o step.op.l)

(* (b) a registered prefix is never re-pointed; a clash yields a fresh prefix *)
C03b(step) ==
  LET hs == DOMAIN step.pre.ns
      pre(h)  == SeqToSet(step.pre.ns[h].reg)
      post(h) == SeqToSet(step.post.ns[h].reg)
      clash == step.op.op = "AddNs" /\
               \E e \in pre(step.op.h) : e[1] = step.op.p /\ e[2] # step.op.u
  IN Cl("C03b", TRUE,
        /\ \A h \in hs : pre(h) \subseteq post(h) /\ IsFunctional(post(h))
        /\ clash => \E e \in post(step.op.h) : e[2] = step.op.u)

(* (c) every name handed out still denotes its URI when printed and re-resolved *)
C03cEntry(e) == e.now.ok /\ Uri(e.now) = e.uri
C03c(step) ==
  Cl("C03c", Len(step.reres) > 0, \A i \in 1..Len(step.reres) : C03cEntry(step.reres[i]))

NsOps == {"AddNs", "SetDefault", "ResQN", "ResStr"}
C03Clauses(step) == IF step.op.op \in NsOps THEN {C03a(step), C03b(step), C03c(step)} ELSE {}

-----------------------------------------------------------------------------
(* Conformance (drift) clauses: the model's post-state against the logged   *)
(* one.  A failure here never becomes a VIOLATION (DESIGN 2.5).             *)
M_Names(msPost, mres, step) ==
  Cl("M_Names", step.op.op \in NsOps,
     /\ \A h \in DOMAIN step.post.ns :
          /\ h \in DOMAIN msPost.mgr
          /\ SeqToSet(msPost.mgr[h].reg) = SeqToSet(step.post.ns[h].reg)
          /\ msPost.mgr[h].dflt = step.post.ns[h].dflt
     /\ step.op.op \in {"ResQN", "ResStr"} => mres = step.res)

=============================================================================
