------------------------------- MODULE Clauses -------------------------------
(***************************************************************************)
(* The listed properties, written once, as operators over an *observed     *)
(* step*: the call (step.op), its outcome (step.exc, step.res) and what    *)
(* the public API shows before and after it (step.pre, step.post, ...).    *)
(* They never look at the model state, so on a recorded execution of the   *)
(* real library they judge the library, not the model; the MC_ modules applies    *)
(* the same operators to the model's own projection (Obs).                 *)
(*                                                                         *)
(* Every clause yields [c |-> id, ok |-> holds, nv |-> antecedent held]    *)
(***************************************************************************)
EXTENDS Prov

Cl(id, nv, ok) == [c |-> id, ok |-> (~nv) \/ ok, nv |-> nv]

IsFunctional(pairs) == \A e1, e2 \in pairs : e1[1] = e2[1] => e1 = e2

-----------------------------------------------------------------------------
(* C03 — qualified names keep their URI and stay unambiguous               *)
(* step.pre/post.ns[h] = [reg: Seq(<<prefix, uri>>), dflt: uri or NONE]    *)
(* step.reres = Seq([s, str, uri, now]) : every name scope s handed out so *)
(* far (printed form, URI at hand-out) and what it resolves to now         *)

(* (a) resolving a QualifiedName never changes its URI *)
C03a(step) ==
  Cl("C03a", step.op.op = "ResQN",
     step.exc = "none" /\ step.res.ok /\ Uri(step.res) = step.op.ns \o step.op.l)

(* (b) a registered prefix is never re-pointed; a clash yields a fresh prefix *)
C03b(step) ==
  LET hs == DOMAIN step.pre.ns
      pre(h)  == SeqToSet(step.pre.ns[h].reg)
      post(h) == SeqToSet(step.post.ns[h].reg)
      clash == step.op.op = "AddNs" /\
               \E e \in pre(step.op.h) : e[1] = step.op.p /\ e[2] # step.op.u
  IN Cl("C03b", TRUE,
        /\ \A h \in hs : pre(h) \subseteq post(h) /\ IsFunctional(post(h))
        /\ clash => \E e \in post(step.op.h) : e[2] = step.op.u)

(* (c) every name handed out still denotes its URI when printed and re-resolved *)
C03cEntry(e) == e.now.ok /\ Uri(e.now) = e.uri
C03c(step) ==
  Cl("C03c", Len(step.reres) > 0, \A i \in 1..Len(step.reres) : C03cEntry(step.reres[i]))

NsOps == {"AddNs", "SetDefault", "ResQN", "ResStr"}
C03Clauses(step) == IF step.op.op \in NsOps THEN {C03a(step), C03b(step), C03c(step)} ELSE {}

-----------------------------------------------------------------------------
(* Helpers over logged observations                                        *)
(* obs.con[h].recs = Seq([k, id: URI|NONE, attrs: Seq([a: URI, v: value])]) *)
AttrSet(rec) == SeqToSet(rec.attrs)
AttrVals(rec, au) == {x.v : x \in {y \in AttrSet(rec) : y.a = au}}
ProvU(l) == <<"prov#", l>>
IsRefU(au)  == IsProvLocal(au, RefAttrs)
IsTimeU(au) == IsProvLocal(au, TimeAttrs)
IsFormalU(au) == IsRefU(au) \/ IsTimeU(au)
FormalPart(rec) == {x \in AttrSet(rec) : IsFormalU(x.a)}
OtherPart(rec)  == {x \in AttrSet(rec) : ~IsFormalU(x.a)}
AllRecs(obs) == UNION {SeqToSet(obs.con[h].recs) : h \in DOMAIN obs.con}

(* What a name denotes in scope h, from the logged namespace tables only      *)
(* (C03 semantics: own registered prefixes and pre-loaded ones, own default,   *)
(* then the parent's).  NONE when the logged tables cannot tell.               *)
Builtin == ("prov" :> ProvNS) @@ ("xsd" :> XsdNS) @@ ("xsi" :> XsiNS)
LookupPrefix(nsobs, p) ==
  LET hits == {e \in SeqToSet(nsobs.reg) : e[1] = p} IN
  IF hits # {} THEN (CHOOSE e \in hits : TRUE)[2]
  ELSE IF p \in DOMAIN Builtin THEN Builtin[p] ELSE NONE
DenoteIn(obs, parents, h, n) ==
  CASE n.rep = "qn"   -> n.ns \o n.l
    [] n.rep = "uri"  -> n.u
    [] n.rep = "rec"  -> obs.con[n.r.c].recs[n.r.i].id
    [] n.rep = "pl"   -> LET own == LookupPrefix(obs.ns[h], n.p)
                             up  == IF parents[h] # "" THEN LookupPrefix(obs.ns[parents[h]], n.p) ELSE NONE
                         IN IF own # NONE THEN own \o n.l ELSE IF up # NONE THEN up \o n.l ELSE NONE
    [] n.rep = "bare" -> IF obs.ns[h].dflt # NONE THEN obs.ns[h].dflt \o n.l
                         ELSE IF parents[h] # "" /\ obs.ns[parents[h]].dflt # NONE
                              THEN obs.ns[parents[h]].dflt \o n.l ELSE NONE

(* The representation-free stored form of an input value, at projection level *)
CanonP(obs, parents, h, au, iv) ==
  CASE iv.t = "name" -> [t |-> "qn", u |-> DenoteIn(obs, parents, h, iv.n)]
    [] iv.t = "nlit" -> IF iv.T = "anyURI" THEN [t |-> "uri", u |-> iv.u] ELSE [t |-> NativeT[iv.T], v |-> iv.v]
    [] iv.t = "plit" -> [t |-> "str", v |-> iv.v]
    [] iv.t = "iso"  -> IF IsTimeU(au) THEN [t |-> "dt", v |-> iv.v] ELSE [t |-> "isostr", v |-> iv.v]
    [] iv.t = "lit"  -> [t |-> "lit", v |-> iv.v, dt |-> iv.dt.ns \o iv.dt.l]
    [] OTHER         -> iv
(* equality of projected values as Python sees it (1 == True == 1.0) *)
PEq(v, w) == IF v.t \in NumKinds /\ w.t \in NumKinds THEN v.v = w.v ELSE v = w

-----------------------------------------------------------------------------
(* C05 — records stay in normal form                                       *)
RecOps == {"NewRec", "AddAttrs", "SetTime", "AddType", "AddRecord"}

(* every PROV formal attribute of every record holds at most one value *)
C05_single(step) ==
  Cl("C05_single", AllRecs(step.post) # {},
     \A rec \in AllRecs(step.post) : \A au \in {x.a : x \in FormalPart(rec)} :
        Cardinality(AttrVals(rec, au)) <= 1)

(* reference-valued formals hold qualified names, time-valued ones datetimes *)
C05_typed(step) ==
  Cl("C05_typed", \E rec \in AllRecs(step.post) : FormalPart(rec) # {},
     \A rec \in AllRecs(step.post) : \A x \in FormalPart(rec) :
        IF IsRefU(x.a) THEN x.v.t = "qn" ELSE x.v.t = "dt")

(* the (name, canonical value) pairs a call supplies, in the scope of container h; *)
(* pairs whose name the logged tables cannot resolve are left out                  *)
Supplied(step, h, pairs) ==
  {[a |-> DenoteIn(step.pre, step.parents, h, pairs[i][1]),
    v |-> CanonP(step.pre, step.parents, h, DenoteIn(step.pre, step.parents, h, pairs[i][1]), pairs[i][2])]
     : i \in {j \in 1..Len(pairs) : DenoteIn(step.pre, step.parents, h, pairs[j][1]) # NONE}}
TimePairs(a) == (IF a.start = <<>> THEN {} ELSE {[a |-> ProvU("startTime"), v |-> CanonP(<<>>, <<>>, "", ProvU("startTime"), a.start[1])]})
           \cup (IF a.end = <<>> THEN {} ELSE {[a |-> ProvU("endTime"), v |-> CanonP(<<>>, <<>>, "", ProvU("endTime"), a.end[1])]})
SuppliedTo(step) ==
  CASE step.op.op = "AddAttrs" -> Supplied(step, step.op.r.c, step.op.pairs)
    [] step.op.op = "SetTime"  -> TimePairs(step.op)
    [] OTHER -> {}
TargetPre(step)  == step.pre.con[step.op.r.c].recs[step.op.r.i]
TargetPost(step) == step.post.con[step.op.r.c].recs[step.op.r.i]
(* the membership compatibility path the property does not claim: several      *)
(* prov:entity values on one membership record                                  *)
Unclaimed(rec, x) == rec.k = "membership" /\ x.a = ProvU("entity")

(* a second, different value of a formal attribute is refused and the stored one stays *)
C05_refuse(step) ==
  LET pre == TargetPre(step)
      sup == SuppliedTo(step)
      conflict == \E x \in sup : /\ IsFormalU(x.a) /\ ~Unclaimed(pre, x)
                                  /\ AttrVals(pre, x.a) # {}
                                  /\ \A w \in AttrVals(pre, x.a) : ~PEq(w, x.v)
  IN Cl("C05_refuse", step.op.op \in {"AddAttrs", "SetTime"} /\ conflict,
        /\ step.exc = "ProvException"
        /\ \A y \in FormalPart(pre) : y \in FormalPart(TargetPost(step)))

(* re-adding the same value is a no-op *)
C05_idem(step) ==
  LET pre == TargetPre(step)
      sup == SuppliedTo(step)
      allsame == sup # {} /\ \A x \in sup : \E w \in AttrVals(pre, x.a) : PEq(w, x.v)
  IN Cl("C05_idem", step.op.op \in {"AddAttrs", "SetTime"} /\ allsame /\
                    Cardinality(sup) = (IF step.op.op = "AddAttrs" THEN Len(step.op.pairs) ELSE Cardinality(sup)),
        step.exc = "none" /\ AttrSet(TargetPost(step)) = AttrSet(pre))

(* other attributes accumulate canonical values; nothing else appears or disappears *)
C05_accumulate(step) ==
  LET pre == TargetPre(step)
      post == TargetPost(step)
      sup == SuppliedTo(step)
      complete == step.op.op = "SetTime" \/ Cardinality(sup) = Len(step.op.pairs)
      grown(S, T) == \A x \in S : \E y \in T : y.a = x.a /\ PEq(y.v, x.v)
  IN Cl("C05_accumulate", step.op.op = "AddAttrs" /\ complete,
        /\ AttrSet(pre) \subseteq AttrSet(post)
        /\ grown(AttrSet(post), AttrSet(pre) \cup sup)
        /\ step.exc = "none" => grown({x \in sup : ~IsFormalU(x.a)}, AttrSet(post)))

(* construction: the new record holds exactly the canonical forms of what was supplied *)
C05_new(step) ==
  LET h == step.op.h
      n == Len(step.pre.con[h].recs)
      pairs == [i \in 1..Len(step.op.formals) |-> <<NameQN("prov", ProvNS, <<step.op.formals[i][1]>>), step.op.formals[i][2]>>]
               \o step.op.extras
      sup == Supplied(step, h, pairs)
      complete == Cardinality(sup) = Len(pairs) \/ Len(pairs) = 0
      grown(S, T) == \A x \in S : \E y \in T : y.a = x.a /\ PEq(y.v, x.v)
  IN Cl("C05_new", step.op.op = "NewRec" /\ step.exc = "none" /\ complete,
        /\ Len(step.post.con[h].recs) = n + 1
        /\ LET rec == step.post.con[h].recs[n + 1] IN
             /\ rec.k = step.op.k
             /\ grown(AttrSet(rec), sup) /\ grown(sup, AttrSet(rec)))

C05Clauses(step) ==
  IF step.op.op \in RecOps
  THEN {C05_single(step), C05_typed(step)}
       \cup (IF step.op.op \in {"AddAttrs", "SetTime"} THEN {C05_refuse(step), C05_idem(step)} ELSE {})
       \cup (IF step.op.op = "AddAttrs" THEN {C05_accumulate(step)} ELSE {})
       \cup (IF step.op.op = "NewRec" THEN {C05_new(step)} ELSE {})
  ELSE {}

-----------------------------------------------------------------------------
(* Conformance (drift) clauses: the model's post-state against the logged   *)
(* one.  A failure here never becomes a VIOLATION (DESIGN 2.5).             *)
M_Names(msPost, mres, step) ==
  Cl("M_Names", TRUE,
     /\ \A h \in DOMAIN step.post.ns :
          /\ h \in DOMAIN msPost.con
          /\ SeqToSet(msPost.mgr[msPost.con[h].mgr].reg) = SeqToSet(step.post.ns[h].reg)
          /\ msPost.mgr[msPost.con[h].mgr].dflt = step.post.ns[h].dflt
     /\ step.op.op \in {"ResQN", "ResStr"} => mres = step.res)

M_Con(msPost, step) ==
  Cl("M_Con", "con" \in DOMAIN step.post,
     \A h \in DOMAIN step.post.con :
        /\ h \in DOMAIN msPost.con
        /\ Len(step.post.con[h].recs) = Len(msPost.con[h].recs)
        /\ \A i \in 1..Len(msPost.con[h].recs) :
             LET m == ProjRec(msPost.con[h].recs[i])
                 o == step.post.con[h].recs[i]
             IN m.k = o.k /\ m.id = o.id /\ m.attrs = SeqToSet(o.attrs))
M_Exc(r, step) == Cl("M_Exc", TRUE, r.exc = step.exc)

=============================================================================
