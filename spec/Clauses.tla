------------------------------- MODULE Clauses -------------------------------
(***************************************************************************)
(* The listed properties, written once, as operators over an *observed     *)
(* step*: the call (step.op), its outcome (step.exc, step.res) and what    *)
(* the public API shows before and after it (step.pre, step.post, ...).    *)
(* They never look at the model state, so on a recorded execution of the   *)
(* real library they judge the library, not the model; the MC_ modules applies    *)
(* the same operators to the model's own projection (Obs).                 *)
(*                                                                         *)
(* Every clause yields [c |-> id, ok |-> holds, nv |-> antecedent held]    *)
(***************************************************************************)
EXTENDS Prov, FS, IO, SpecProvN, ProvRdfW

Cl(id, nv, ok) == [c |-> id, ok |-> (~nv) \/ ok, nv |-> nv]

IsFunctional(pairs) == \A e1, e2 \in pairs : e1[1] = e2[1] => e1 = e2

-----------------------------------------------------------------------------
(* C03 — qualified names keep their URI and stay unambiguous               *)
(* step.pre/post.ns[h] = [reg: Seq(<<prefix, uri>>), dflt: uri or NONE]    *)
(* step.reres = Seq([s, str, uri, now]) : every name scope s handed out so *)
(* far (printed form, URI at hand-out) and what it resolves to now         *)

(* (a) resolving a QualifiedName never changes its URI *)
C03a(step) ==
  Cl("C03a", step.op.op = "ResQN",
     step.exc = "none" /\ step.res.ok /\ Uri(step.res) = step.op.ns \o step.op.l)

(* (b) a registered prefix is never re-pointed; a clash yields a fresh prefix *)
C03b(step) ==
  LET hs == DOMAIN step.pre.ns
      pre(h)  == SeqToSet(step.pre.ns[h].reg)
      post(h) == SeqToSet(step.post.ns[h].reg)
      clash == step.op.op = "AddNs" /\
               \E e \in pre(step.op.h) : e[1] = step.op.p /\ e[2] # step.op.u
  IN Cl("C03b", TRUE,
        /\ \A h \in hs : pre(h) \subseteq post(h) /\ IsFunctional(post(h))
        /\ clash => \E e \in post(step.op.h) : e[2] = step.op.u)

(* (c) every name handed out still denotes its URI when printed and re-resolved *)
C03cEntry(e) == e.now.ok /\ Uri(e.now) = e.uri
C03c(step) ==
  Cl("C03c", Len(step.reres) > 0, \A i \in 1..Len(step.reres) : C03cEntry(step.reres[i]))

NsOps == {"AddNs", "SetDefault", "ResQN", "ResStr"}
C03Clauses(step) == IF step.op.op \in NsOps THEN {C03a(step), C03b(step), C03c(step)} ELSE {}

-----------------------------------------------------------------------------
(* Helpers over logged observations                                        *)
(* obs.con[h].recs = Seq([k, id: URI|NONE, attrs: Seq([a: URI, v: value])]) *)
AttrSet(rec) == SeqToSet(rec.attrs)
AttrVals(rec, au) == {x.v : x \in {y \in AttrSet(rec) : y.a = au}}
ProvU(l) == <<"prov#", l>>
IsRefU(au)  == IsProvLocal(au, RefAttrs)
IsTimeU(au) == IsProvLocal(au, TimeAttrs)
IsFormalU(au) == IsRefU(au) \/ IsTimeU(au)
FormalPart(rec) == {x \in AttrSet(rec) : IsFormalU(x.a)}
OtherPart(rec)  == {x \in AttrSet(rec) : ~IsFormalU(x.a)}
AllRecs(obs) == UNION {SeqToSet(obs.con[h].recs) : h \in DOMAIN obs.con}

(* What a name denotes in scope h, from the logged namespace tables only      *)
(* (C03 semantics: own registered prefixes and pre-loaded ones, own default,   *)
(* then the parent's).  NONE when the logged tables cannot tell.               *)
Builtin == ("prov" :> ProvNS) @@ ("xsd" :> XsdNS) @@ ("xsi" :> XsiNS)
LookupPrefix(nsobs, p) ==
  LET hits == {e \in SeqToSet(nsobs.reg) : e[1] = p} IN
  IF hits # {} THEN (CHOOSE e \in hits : TRUE)[2]
  ELSE IF p \in DOMAIN Builtin THEN Builtin[p] ELSE NONE
DenoteIn(obs, parents, h, n) ==
  CASE n.rep = "qn"   -> n.ns \o n.l
    [] n.rep = "uri"  -> n.u
    [] n.rep = "rec"  -> obs.con[n.r.c].recs[n.r.i].id
    [] n.rep = "pl"   -> LET own == LookupPrefix(obs.ns[h], n.p)
                             up  == IF parents[h] # "" THEN LookupPrefix(obs.ns[parents[h]], n.p) ELSE NONE
                         IN IF own # NONE THEN own \o n.l ELSE IF up # NONE THEN up \o n.l ELSE NONE
    [] n.rep = "bare" -> IF obs.ns[h].dflt # NONE THEN obs.ns[h].dflt \o n.l
                         ELSE IF parents[h] # "" /\ obs.ns[parents[h]].dflt # NONE
                              THEN obs.ns[parents[h]].dflt \o n.l ELSE NONE

(* The representation-free stored form of an input value, at projection level *)
CanonP(obs, parents, h, au, iv) ==
  CASE iv.t = "name" -> [t |-> "qn", u |-> DenoteIn(obs, parents, h, iv.n)]
    [] iv.t = "nlit" -> IF iv.T = "anyURI" THEN [t |-> "uri", u |-> iv.u] ELSE [t |-> NativeT[iv.T], v |-> iv.v]
    [] iv.t = "plit" -> [t |-> "str", v |-> iv.v]
    [] iv.t \in {"iso", "isolit"} -> IF IsTimeU(au) THEN [t |-> "dt", v |-> iv.v] ELSE [t |-> "isostr", v |-> iv.v]
    [] iv.t = "lit"  -> [t |-> "lit", v |-> iv.v, dt |-> iv.dt.ns \o iv.dt.l]
    [] OTHER         -> iv
(* equality of projected values as Python sees it (1 == True == 1.0) *)
PEq(v, w) == IF v.t \in NumKinds /\ w.t \in NumKinds THEN v.v = w.v ELSE v = w

-----------------------------------------------------------------------------
(* C05 — records stay in normal form                                       *)
RecOps == {"NewRec", "AddAttrs", "SetTime", "AddType", "AddRecord"}

(* the membership compatibility path the property does not claim: several      *)
(* prov:entity values on one membership record                                  *)
Unclaimed(rec, x) == rec.k = "membership" /\ x.a = ProvU("entity")

(* ... as far as a single call is concerned: the compatibility path is entered by a call that  *)
(* names prov:collection (or several prov:entity values) itself, or continues on a record that  *)
(* already holds several members.  A later call that only supplies ONE different prov:entity   *)
(* for a membership holding one member is an ordinary conflict and is claimed.                *)
UnclaimedCall(pre, sup, x) ==
  /\ Unclaimed(pre, x)
  /\ \/ Cardinality(AttrVals(pre, x.a)) > 1
     \/ \E y \in sup : y.a = ProvU("collection")
     \/ Cardinality({y \in sup : y.a = ProvU("entity")}) > 1

(* every PROV formal attribute of every record holds at most one value *)
C05_single(step) ==
  Cl("C05_single", AllRecs(step.post) # {},
     \A rec \in AllRecs(step.post) : \A x \in FormalPart(rec) :
        Unclaimed(rec, x) \/ Cardinality(AttrVals(rec, x.a)) <= 1)

(* reference-valued formals hold qualified names, time-valued ones datetimes *)
C05_typed(step) ==
  Cl("C05_typed", \E rec \in AllRecs(step.post) : FormalPart(rec) # {},
     \A rec \in AllRecs(step.post) : \A x \in FormalPart(rec) :
        IF IsRefU(x.a) THEN x.v.t = "qn" ELSE x.v.t = "dt")

(* the (name, canonical value) pairs a call supplies, in the scope of container h; *)
(* pairs whose name the logged tables cannot resolve are left out                  *)
Supplied(step, h, pairs) ==
  {[a |-> DenoteIn(step.pre, step.parents, h, pairs[i][1]),
    v |-> CanonP(step.pre, step.parents, h, DenoteIn(step.pre, step.parents, h, pairs[i][1]), pairs[i][2])]
     : i \in {j \in 1..Len(pairs) : DenoteIn(step.pre, step.parents, h, pairs[j][1]) # NONE}}
TimePairs(a) == (IF a.start = <<>> THEN {} ELSE {[a |-> ProvU("startTime"), v |-> CanonP(<<>>, <<>>, "", ProvU("startTime"), a.start[1])]})
           \cup (IF a.end = <<>> THEN {} ELSE {[a |-> ProvU("endTime"), v |-> CanonP(<<>>, <<>>, "", ProvU("endTime"), a.end[1])]})
SuppliedTo(step) ==
  CASE step.op.op = "AddAttrs" -> Supplied(step, step.op.r.c, step.op.pairs)
    [] step.op.op = "SetTime"  -> TimePairs(step.op)
    [] OTHER -> {}
TargetPre(step)  == step.pre.con[step.op.r.c].recs[step.op.r.i]
TargetPost(step) == step.post.con[step.op.r.c].recs[step.op.r.i]

(* a second, different value of a formal attribute is refused and the stored one stays *)
C05_refuse(step) ==
  LET pre == TargetPre(step)
      sup == SuppliedTo(step)
      conflict == \E x \in sup : /\ IsFormalU(x.a) /\ ~UnclaimedCall(pre, sup, x)
                                  /\ AttrVals(pre, x.a) # {}
                                  /\ \A w \in AttrVals(pre, x.a) : ~PEq(w, x.v)
  IN Cl("C05_refuse", step.op.op \in {"AddAttrs", "SetTime"} /\ conflict,
        /\ step.exc = "ProvException"
        /\ \A y \in FormalPart(pre) : y \in FormalPart(TargetPost(step)))

(* re-adding the same value is a no-op *)
C05_idem(step) ==
  LET pre == TargetPre(step)
      sup == SuppliedTo(step)
      allsame == sup # {} /\ \A x \in sup : ~Unclaimed(pre, x) /\ \E w \in AttrVals(pre, x.a) : PEq(w, x.v)
  IN Cl("C05_idem", step.op.op \in {"AddAttrs", "SetTime"} /\ allsame /\
                    Cardinality(sup) = (IF step.op.op = "AddAttrs" THEN Len(step.op.pairs) ELSE Cardinality(sup)),
        step.exc = "none" /\ AttrSet(TargetPost(step)) = AttrSet(pre))

(* other attributes accumulate canonical values; nothing else appears or disappears *)
C05_accumulate(step) ==
  LET pre == TargetPre(step)
      post == TargetPost(step)
      sup == SuppliedTo(step)
      complete == step.op.op = "SetTime" \/ Cardinality(sup) = Len(step.op.pairs)
      grown(S, T) == \A x \in S : \E y \in T : y.a = x.a /\ PEq(y.v, x.v)
  IN Cl("C05_accumulate", step.op.op = "AddAttrs" /\ complete,
        /\ AttrSet(pre) \subseteq AttrSet(post)
        /\ grown(AttrSet(post), AttrSet(pre) \cup sup)
        /\ step.exc = "none" => grown({x \in sup : ~IsFormalU(x.a)}, AttrSet(post)))

(* ... and is represented identically whatever the entry path: a supplied value that no equal   *)
(* value of another type competes with (Python sets keep the first of 1 / 1.0 / True) is stored  *)
(* exactly as its canonical form - Literal("1", xsd:double) as the float, not as the int 1      *)
Uncontested(x, S) == \A w \in S : (w.a = x.a /\ PEq(w.v, x.v)) => w.v = x.v
C05_exact(step) ==
  LET isNew == step.op.op = "NewRec"
      h == step.op.h
      pairs == IF isNew
               THEN [i \in 1..Len(step.op.formals) |-> <<NameQN("prov", ProvNS, <<step.op.formals[i][1]>>), step.op.formals[i][2]>>]
                    \o step.op.extras
               ELSE <<>>
      sup  == IF isNew THEN Supplied(step, h, pairs) ELSE SuppliedTo(step)
      pre  == IF isNew THEN {} ELSE AttrSet(TargetPre(step))
      post == IF isNew THEN (IF Len(step.post.con[h].recs) = Len(step.pre.con[h].recs) + 1
                             THEN AttrSet(step.post.con[h].recs[Len(step.post.con[h].recs)]) ELSE {})
              ELSE AttrSet(TargetPost(step))
      free == {x \in sup : ~IsFormalU(x.a) /\ Uncontested(x, pre \cup sup)}
  IN Cl("C05_exact", step.op.op \in {"NewRec", "AddAttrs"} /\ step.exc = "none" /\ free # {},
        free \subseteq post)

(* construction: the new record holds exactly the canonical forms of what was supplied *)
C05_new(step) ==
  LET h == step.op.h
      n == Len(step.pre.con[h].recs)
      \* a typed convenience factory (revision, collection ...) also supplies the PROV type it asserts
      asserted == IF step.op.via \in DOMAIN SubFactoryType
                  THEN << <<NameQN("prov", ProvNS, <<"type">>),
                            [t |-> "name", n |-> NameQN("prov", ProvNS, <<SubFactoryType[step.op.via]>>)]>> >>
                  ELSE <<>>
      pairs == [i \in 1..Len(step.op.formals) |-> <<NameQN("prov", ProvNS, <<step.op.formals[i][1]>>), step.op.formals[i][2]>>]
               \o step.op.extras \o asserted
      sup == Supplied(step, h, pairs)
      complete == Cardinality(sup) = Len(pairs) \/ Len(pairs) = 0
      grown(S, T) == \A x \in S : \E y \in T : y.a = x.a /\ PEq(y.v, x.v)
  IN Cl("C05_new", step.op.op = "NewRec" /\ step.exc = "none" /\ complete,
        /\ Len(step.post.con[h].recs) = n + 1
        /\ LET rec == step.post.con[h].recs[n + 1] IN
             /\ rec.k = step.op.k
             /\ grown(AttrSet(rec), sup) /\ grown(sup, AttrSet(rec)))

C05Clauses(step) ==
  IF step.op.op \in RecOps
  THEN {C05_single(step), C05_typed(step)}
       \cup (IF step.op.op \in {"AddAttrs", "SetTime"} THEN {C05_refuse(step), C05_idem(step)} ELSE {})
       \cup (IF step.op.op = "AddAttrs" THEN {C05_accumulate(step)} ELSE {})
       \cup (IF step.op.op = "NewRec" THEN {C05_new(step)} ELSE {})
       \cup (IF step.op.op \in {"NewRec", "AddAttrs"} THEN {C05_exact(step)} ELSE {})
  ELSE {}

-----------------------------------------------------------------------------
(* C18 — identifier lookup and typed listing agree with the record list     *)
(* step.look  = Seq([h, n: name (string spelling), idx: indices returned])   *)
(* step.typed = [h -> [class name -> indices]]   step.copy = [h -> BOOLEAN]  *)
ScanIdx(recs, u) == SelectSeq([i \in 1..Len(recs) |-> i], LAMBDA i : recs[i].id = u)
SubKinds(cls) ==
  CASE cls = "element"  -> Elements
    [] cls = "relation" -> Kinds \ Elements
    [] cls = "specialization" -> {"specialization", "mention"}
    [] OTHER -> {cls}

(* "the URI x denotes": decided from the logged public tables when the container's OWN tables    *)
(* decide it (full URI, QualifiedName, own registered or pre-loaded prefix, own default);        *)
(* a spelling that falls through to private state (the renamed-prefix map) or to the parent is    *)
(* judged against what the container itself resolves it to (den, logged) - that resolution is     *)
(* C03's subject, the index is C18's                                                              *)
Certain(obs, h, n) ==
  \/ n.rep \in {"qn", "uri", "rec"}
  \/ n.rep = "pl" /\ LookupPrefix(obs.ns[h], n.p) # NONE
  \/ n.rep = "bare" /\ obs.ns[h].dflt # NONE
DenotedU(obs, parents, h, n, den) == IF Certain(obs, h, n) THEN DenoteIn(obs, parents, h, n) ELSE den
C18_lookup(step) ==
  LET U(e) == DenotedU(step.post, step.parents, e.h, e.n, e.den)
      known == {i \in 1..Len(step.look) : U(step.look[i]) # NONE}
  IN Cl("C18_lookup", known # {},
        \A i \in known : LET e == step.look[i] IN
           e.idx = ScanIdx(step.post.con[e.h].recs, U(e)))

(* get_record(x) called as an operation (x may be a QualifiedName under any prefix) *)
C18_get(step) ==
  LET u == DenotedU(step.pre, step.parents, step.op.h, step.op.id, IF "den" \in DOMAIN step THEN step.den ELSE NONE) IN
  Cl("C18_get", step.op.op = "GetRecord" /\ u # NONE,
     step.exc = "none" /\ step.res = ScanIdx(step.post.con[step.op.h].recs, u)
     /\ step.post.con[step.op.h].recs = step.pre.con[step.op.h].recs)

C18_typed(step) ==
  Cl("C18_typed", \E h \in DOMAIN step.typed : step.post.con[h].recs # <<>>,
     \A h \in DOMAIN step.typed : \A cls \in DOMAIN step.typed[h] :
        step.typed[h][cls] = SelectSeq([i \in 1..Len(step.post.con[h].recs) |-> i],
                                       LAMBDA i : step.post.con[h].recs[i].k \in SubKinds(cls)))

C18_copy(step) == Cl("C18_copy", TRUE, \A h \in DOMAIN step.copy : step.copy[h])

(* get_records(cls) lists the records present when it was asked: step.held are listings obtained *)
(* BEFORE the call of this step and read AFTER it (0 stands for a record that was not there)     *)
C18_held(step) ==
  Cl("C18_held", "held" \in DOMAIN step /\ \E h \in DOMAIN step.held : step.pre.con[h].recs # <<>>,
     \A h \in DOMAIN step.held : \A cls \in DOMAIN step.held[h] :
        step.held[h][cls] = SelectSeq([i \in 1..Len(step.pre.con[h].recs) |-> i],
                                      LAMBDA i : step.pre.con[h].recs[i].k \in SubKinds(cls)))

C18Clauses(step) ==
  IF "look" \in DOMAIN step
  THEN {C18_lookup(step), C18_typed(step), C18_copy(step)}
       \cup (IF step.op.op = "GetRecord" THEN {C18_get(step)} ELSE {})
       \cup (IF "held" \in DOMAIN step THEN {C18_held(step)} ELSE {})
  ELSE {}

-----------------------------------------------------------------------------
(* Content of logged records: URI level, kind aware, attributes as a set     *)
Content(r) == [k |-> r.k, id |-> r.id, attrs |-> SeqToSet(r.attrs)]
ContentSeq(recs) == [i \in 1..Len(recs) |-> Content(recs[i])]
CountIn(sq, x) == Cardinality({i \in 1..Len(sq) : sq[i] = x})
SameBag(s1, s2) == /\ Len(s1) = Len(s2)
                   /\ \A x \in SeqToSet(s1) \cup SeqToSet(s2) : CountIn(s1, x) = CountIn(s2, x)
RECURSIVE FlatRecs(_, _, _)
FlatRecs(obs, bs, i) == IF i > Len(bs) THEN <<>> ELSE obs.con[bs[i]].recs \o FlatRecs(obs, bs, i + 1)
BundleWithId(obs, h, u) == {b \in SeqToSet(obs.con[h].bundles) : obs.con[b].id = u}
NewHandles(step) == DOMAIN step.post.con \ DOMAIN step.pre.con
(* a whole container (and, for a document, its bundles) looks exactly as before *)
SameCon(step, h) ==
  /\ h \in DOMAIN step.post.con
  /\ step.post.con[h] = step.pre.con[h] /\ step.post.ns[h] = step.pre.ns[h]
SameDeep(step, h) ==
  /\ SameCon(step, h)
  /\ \A b \in SeqToSet(step.pre.con[h].bundles) : SameCon(step, b)

-----------------------------------------------------------------------------
(* C09 — flattened(), update() and add_bundle() conserve records            *)
C09_flat(step) ==
  LET h == step.op.h
      out == step.op.out
  IN Cl("C09_flat", step.op.op = "Flattened" /\ step.pre.con[h].kind = "doc"
                    /\ step.pre.con[h].bundles # <<>>,
        /\ step.exc = "none"
        /\ out \in DOMAIN step.post.con
        /\ step.post.con[out].bundles = <<>> /\ step.post.con[out].kind = "doc"
        /\ SameBag(ContentSeq(step.post.con[out].recs),
                   ContentSeq(step.pre.con[h].recs \o FlatRecs(step.pre, step.pre.con[h].bundles, 1)))
        /\ SameDeep(step, h))

C09_update(step) ==
  LET h == step.op.h
      o == step.op.other
      obs == step.pre.con[o].bundles
      bundleOK(b) ==
        LET u == step.pre.con[b].id
            tgt == BundleWithId(step.post, h, u)
            old == BundleWithId(step.pre, h, u)
        IN /\ Cardinality(tgt) = 1
           /\ LET t == CHOOSE x \in tgt : TRUE IN
                SameBag(ContentSeq(step.post.con[t].recs),
                        ContentSeq((IF old = {} THEN <<>> ELSE step.pre.con[CHOOSE x \in old : TRUE].recs)
                                   \o step.pre.con[b].recs))
  IN Cl("C09_update", step.op.op = "Update" /\ step.pre.con[h].kind = "doc",
        /\ step.exc = "none"
        /\ SameBag(ContentSeq(step.post.con[h].recs),
                   ContentSeq(step.pre.con[h].recs \o step.pre.con[o].recs))
        /\ \A b \in SeqToSet(obs) : bundleOK(b)
        /\ {step.post.con[b].id : b \in SeqToSet(step.post.con[h].bundles)}
             = {step.pre.con[b].id : b \in SeqToSet(step.pre.con[h].bundles)}
               \cup {step.pre.con[b].id : b \in SeqToSet(obs)}
        /\ Len(step.post.con[h].bundles) = Cardinality({step.post.con[b].id : b \in SeqToSet(step.post.con[h].bundles)})
        /\ SameDeep(step, o))

(* update on a plain bundle: records of a bundle-free other are appended, other unchanged *)
C09_update_bundle(step) ==
  LET h == step.op.h
      o == step.op.other
  IN Cl("C09_update_bundle", step.op.op = "Update" /\ step.pre.con[h].kind = "bun"
                             /\ step.pre.con[o].bundles = <<>>,
        /\ step.exc = "none"
        /\ SameBag(ContentSeq(step.post.con[h].recs),
                   ContentSeq(step.pre.con[h].recs \o step.pre.con[o].recs))
        /\ SameCon(step, o))

(* the identifier an add_bundle call asks for, from the logged tables *)
RequestedId(step) ==
  LET a == step.op IN
  IF a.id = <<>> THEN step.pre.con[a.arg].id
  ELSE IF a.id[1].rep = "qn" THEN a.id[1].ns \o a.id[1].l
  ELSE IF a.id[1].rep = "pl" THEN
       (* a string identifier is read in the scope of the attached bundle (which carries  *)
       (* the argument's registered namespaces), then in the document's                    *)
       (* - where the argument's own tables do not decide, by what the attached bundle itself    *)
       (* resolves the spelling to (logged as den: a prefix it renamed is private state); for a  *)
       (* document argument that is not observable and the clauses do not apply                   *)
       LET own == LookupPrefix(step.pre.ns[a.arg], a.id[1].p)
       IN IF own # NONE THEN own \o a.id[1].l
          ELSE IF "den" \in DOMAIN step THEN step.den ELSE NONE
  ELSE NONE
MustRefuse(step) ==
  LET a == step.op
      u == RequestedId(step)
  IN \/ (step.pre.con[a.arg].kind = "doc" /\ step.pre.con[a.arg].bundles # <<>>)
     \/ (a.id = <<>> /\ step.pre.con[a.arg].id = NONE)
     \/ (u # NONE /\ BundleWithId(step.pre, a.h, u) # {})

C09_addbundle_ok(step) ==
  LET a == step.op
      u == RequestedId(step)
      nb == SeqToSet(step.post.con[a.h].bundles) \ SeqToSet(step.pre.con[a.h].bundles)
  IN Cl("C09_addbundle_ok", a.op = "AddBundle" /\ u # NONE /\ ~MustRefuse(step),
        /\ step.exc = "none"
        /\ Cardinality(nb) = 1
        /\ Len(step.post.con[a.h].bundles) = Len(step.pre.con[a.h].bundles) + 1
        /\ LET b == CHOOSE x \in nb : TRUE IN
             /\ step.post.con[b].id = u
             /\ SameBag(ContentSeq(step.post.con[b].recs), ContentSeq(step.pre.con[a.arg].recs))
        /\ step.post.con[a.h].recs = step.pre.con[a.h].recs
        /\ \A b \in SeqToSet(step.pre.con[a.h].bundles) : SameCon(step, b)
        /\ step.pre.con[a.arg].kind = "doc" => SameDeep(step, a.arg))

C09_addbundle_refuse(step) ==
  Cl("C09_addbundle_refuse", step.op.op = "AddBundle" /\ MustRefuse(step),
     /\ step.exc = "ProvException"
     /\ step.post.con[step.op.h] = step.pre.con[step.op.h]
     /\ step.post.ns[step.op.h] = step.pre.ns[step.op.h]
     /\ \A b \in SeqToSet(step.pre.con[step.op.h].bundles) : SameCon(step, b))

C09_bundle(step) ==
  LET a == step.op
      u == DenoteIn(step.pre, step.parents, a.h, a.id)
      dup == BundleWithId(step.pre, a.h, u) # {}
  IN Cl("C09_bundle", a.op = "Bundle" /\ u # NONE,
        IF dup THEN /\ step.exc = "ProvException"
                    /\ step.post.con[a.h] = step.pre.con[a.h]
        ELSE /\ step.exc = "none"
             /\ a.out \in DOMAIN step.post.con
             /\ step.post.con[a.h].bundles = Append(step.pre.con[a.h].bundles, a.out)
             /\ step.post.con[a.out].id = u /\ step.post.con[a.out].recs = <<>>
             /\ step.post.con[a.h].recs = step.pre.con[a.h].recs)

C09Clauses(step) ==
  CASE step.op.op = "Flattened" -> {C09_flat(step)}
    [] step.op.op = "Update"    -> {C09_update(step), C09_update_bundle(step)}
    [] step.op.op = "AddBundle" -> {C09_addbundle_ok(step), C09_addbundle_refuse(step)}
    [] step.op.op = "Bundle"    -> {C09_bundle(step)}
    [] OTHER -> {}

-----------------------------------------------------------------------------
(* C08 — unified() merges exactly the records sharing an identifier          *)
(* UnifiedSpec: as the property states it, on logged records: group by       *)
(* (identifier, kind), union of attributes, anonymous records untouched,     *)
(* first-occurrence order.                                                   *)
SameGroup(r1, r2) == r1.id # NONE /\ r1.id = r2.id /\ r1.k = r2.k
UnifiedSpec(recs) ==
  LET firsts == SelectSeq([i \in 1..Len(recs) |-> i],
                          LAMBDA i : recs[i].id = NONE \/ ~\E j \in 1..(i - 1) : SameGroup(recs[j], recs[i]))
  IN [n \in 1..Len(firsts) |->
        LET r == recs[firsts[n]] IN
        IF r.id = NONE THEN Content(r)
        ELSE [k |-> r.k, id |-> r.id,
              attrs |-> UNION {SeqToSet(recs[j].attrs) : j \in {x \in 1..Len(recs) : SameGroup(recs[x], r)}}]]
(* two records disagree on a single-valued formal attribute they both have *)
Disagree(r1, r2) ==
  \E x \in FormalPart(r1), y \in FormalPart(r2) :
     x.a = y.a /\ ~PEq(x.v, y.v) /\ ~(x.a = ProvU("entity") /\ r1.k = "membership")
ConflictSameKind(recs) == \E i, j \in 1..Len(recs) : i < j /\ SameGroup(recs[i], recs[j]) /\ Disagree(recs[i], recs[j])
ConflictAnyKind(recs)  == \E i, j \in 1..Len(recs) : i < j /\ recs[i].id # NONE /\ recs[i].id = recs[j].id
                                                         /\ Disagree(recs[i], recs[j])
UnifySources(step) == {step.op.h} \cup SeqToSet(step.pre.con[step.op.h].bundles)

C08_result(step) ==
  LET h == step.op.h
      out == step.op.out
      pre == step.pre.con
      post == step.post.con
      resBundle(b) == LET hits == BundleWithId(step.post, out, pre[b].id) IN
                      /\ Cardinality(hits) = 1
                      /\ ContentSeq(post[CHOOSE x \in hits : TRUE].recs) = UnifiedSpec(pre[b].recs)
  IN Cl("C08_result", step.op.op = "Unified" /\ step.exc = "none",
        /\ out \in DOMAIN post
        /\ ContentSeq(post[out].recs) = UnifiedSpec(pre[h].recs)
        /\ post[out].kind = pre[h].kind
        /\ pre[h].kind = "bun" => post[out].id = pre[h].id
        /\ Len(post[out].bundles) = Len(pre[h].bundles)
        /\ \A i \in 1..Len(pre[h].bundles) : post[post[out].bundles[i]].id = pre[pre[h].bundles[i]].id
        /\ \A b \in SeqToSet(pre[h].bundles) : resBundle(b))
C08_conflict(step) ==
  Cl("C08_conflict", step.op.op = "Unified" /\
        \E c \in UnifySources(step) : ConflictSameKind(step.pre.con[c].recs),
     step.exc = "ProvException")
C08_raise(step) ==
  Cl("C08_raise", step.op.op = "Unified" /\ step.exc # "none",
     step.exc = "ProvException" /\ \E c \in UnifySources(step) : ConflictAnyKind(step.pre.con[c].recs))
C08_pure(step) == Cl("C08_pure", step.op.op = "Unified", SameDeep(step, step.op.h))
C08Clauses(step) ==
  IF step.op.op = "Unified" THEN {C08_result(step), C08_conflict(step), C08_raise(step), C08_pure(step)} ELSE {}

-----------------------------------------------------------------------------
(* C12 — derived documents and copied records share no mutable state         *)
(* Frame condition over ALL live handles: whatever the call does not own      *)
(* looks exactly as before (content, registered namespaces, default).        *)
Owned(step) ==
  LET a == step.op
      pre == step.pre.con
      withBundles(h) == {h} \cup SeqToSet(pre[h].bundles)
  IN NewHandles(step) \cup
     (CASE a.op \in {"NewRec", "AddRecord", "AddNs", "SetDefault", "ResQN", "GetRecord", "Bundle"} -> {a.h}
        [] a.op \in {"AddAttrs", "SetTime", "AddType"} -> {a.r.c}
        [] a.op = "Update" -> withBundles(a.h)
        [] a.op = "AddBundle" -> {a.h} \cup (IF pre[a.arg].kind = "bun" THEN {a.arg} ELSE {})
        [] OTHER -> {})
(* a copied record still belongs to its bundle: it shows that bundle's namespaces, *)
(* and giving it attributes resolves names there                                   *)
IsLoose(obs, h) == obs.con[h].kind = "loose"
NsOwned(step) ==
  LET a == step.op IN
  IF a.op \in {"AddAttrs", "SetTime", "AddType"} /\ IsLoose(step.pre, a.r.c) THEN {step.parents[a.r.c]} ELSE {}
C12_frame(step) ==
  Cl("C12_frame", TRUE,
     \A h \in DOMAIN step.pre.con \ Owned(step) :
        /\ h \in DOMAIN step.post.con
        /\ step.post.con[h] = step.pre.con[h]
        /\ (IsLoose(step.pre, h) \/ h \in NsOwned(step) \/ step.post.ns[h] = step.pre.ns[h]))
(* deserialisation returns a new object each time: step.fresh (harness/roundtrip.freshness) logs  *)
(* whether a second read of the same text is a distinct object, whether it looks exactly as      *)
(* before after every kind of follow-up modification of the first, and whether a third read     *)
(* still returns that content                                                                   *)
C12_reload(step) ==
  Cl("C12_reload", step.op.op = "RT" /\ "fresh" \in DOMAIN step,
     LET f == step.fresh IN
     f.exc = "none" /\ f.distinct /\ f.frame /\ f.again)
C12Clauses(step) == (IF "con" \in DOMAIN step.pre THEN {C12_frame(step)} ELSE {})
                    \cup (IF step.op.op = "RT" /\ "fresh" \in DOMAIN step THEN {C12_reload(step)} ELSE {})

-----------------------------------------------------------------------------
(* C04 — document equality is an equivalence that coincides with content     *)
(* equivalence.  step.res = [eq, ne: matrices over step.op.hs; rec: per pair  *)
(* of top-level records of the first two handles: [i, j, eq, qe, hi, hj]]     *)
NormV(v) == IF v.t \in NumKinds THEN [t |-> "num", v |-> v.v] ELSE v
NormContent(r) == [k |-> r.k, id |-> r.id, attrs |-> {[a |-> x.a, v |-> NormV(x.v)] : x \in SeqToSet(r.attrs)}]
RecSet(obs, h) == {NormContent(obs.con[h].recs[i]) : i \in 1..Len(obs.con[h].recs)}
ContentEquiv(obs, h1, h2) ==
  /\ obs.con[h1].kind = obs.con[h2].kind
  /\ RecSet(obs, h1) = RecSet(obs, h2)
  /\ {obs.con[b].id : b \in SeqToSet(obs.con[h1].bundles)} = {obs.con[b].id : b \in SeqToSet(obs.con[h2].bundles)}
  /\ \A b1 \in SeqToSet(obs.con[h1].bundles) : \A b2 \in SeqToSet(obs.con[h2].bundles) :
        obs.con[b1].id = obs.con[b2].id => RecSet(obs, b1) = RecSet(obs, b2)
CmpIdx(step) == 1..Len(step.op.hs)
C04_refl(step) == Cl("C04_refl", TRUE, \A i \in CmpIdx(step) : step.res.eq[i][i])
C04_sym(step)  == Cl("C04_sym", TRUE, \A i, j \in CmpIdx(step) : step.res.eq[i][j] = step.res.eq[j][i])
C04_ne(step)   == Cl("C04_ne", TRUE, \A i, j \in CmpIdx(step) : step.res.ne[i][j] = ~step.res.eq[i][j])
C04_trans(step) ==
  Cl("C04_trans", Len(step.op.hs) >= 3,
     \A i, j, k \in CmpIdx(step) : (step.res.eq[i][j] /\ step.res.eq[j][k]) => step.res.eq[i][k])
C04_content(step) ==
  Cl("C04_content", TRUE,
     \A i, j \in CmpIdx(step) :
        step.res.eq[i][j] = ContentEquiv(step.post, step.op.hs[i], step.op.hs[j]))
C04_hash(step) ==
  Cl("C04_hash", Len(step.res.rec) > 0,
     \A n \in 1..Len(step.res.rec) : LET e == step.res.rec[n] IN
        /\ e.eq = e.qe
        /\ e.eq => e.hi = e.hj
        /\ e.eq = (NormContent(step.post.con[step.op.hs[1]].recs[e.i]) =
                   NormContent(step.post.con[step.op.hs[2]].recs[e.j])))
C04Clauses(step) ==
  IF step.op.op = "CompareAll" /\ step.exc = "none"
  THEN {C04_refl(step), C04_sym(step), C04_ne(step), C04_trans(step), C04_content(step), C04_hash(step)}
  ELSE {}

-----------------------------------------------------------------------------
(* C17 — writing to a file path is exact and all-or-nothing                    *)
(* step.events = Seq([ev, ..., snap: [named, others, ntmp]]): one per file-system *)
(* step of the call, each with a snapshot of the destination; step.final = last   *)
(* snapshot; step.fired = the injected failure was reached                        *)
Snaps(step) == {step.events[i].snap : i \in 1..Len(step.events)} \cup {step.final}
Before(step) == IF step.op.existing THEN "old" ELSE "absent"
C17_atomic(step) ==
  Cl("C17_atomic", TRUE, \A sn \in Snaps(step) : sn.named \in {Before(step), "new"})
C17_exact(step) ==
  Cl("C17_exact", step.exc = "none",
     step.final.named = "new" /\ step.final.others = <<>> /\ step.final.ntmp = 0)
C17_keep(step) ==
  Cl("C17_keep", step.exc # "none",
     /\ step.final.named \in {Before(step), "new"} /\ step.final.others = <<>>
     \* "nowhere else": no temporary file is left behind in the destination's directory
     /\ step.final.ndest = 0)
C17_propagate(step) == Cl("C17_propagate", step.fired, step.exc # "none")
C17Clauses(step) ==
  IF step.op.op = "Save" THEN {C17_atomic(step), C17_exact(step), C17_keep(step), C17_propagate(step)} ELSE {}

-----------------------------------------------------------------------------
(* C16 — all source/destination kinds agree, and prov.read detects the format     *)
(* step.res = [src: digest of the source document, text: [kind -> same text as   *)
(* the returned string], doc: [source kind -> digest], read: [kind_how -> digest]] *)
C16_same_text(step) ==
  \* pathover: the named file existed before and was longer than the new text
  Cl("C16_same_text", TRUE, \A k \in {"text", "binary", "path", "pathover", "textfile", "ntf"} : step.res.text[k])
C16_same_doc(step) ==
  Cl("C16_same_doc", step.op.fmt \in Readable,
     \A k \in SrcKinds : step.res.doc[k] = step.res.src)
C16_read(step) ==
  Cl("C16_read", step.op.fmt \in Readable,
     /\ \A k \in {"text", "binary", "path", "pathurl"} : \A how \in {"explicit", "detect"} :
           step.res.read[k \o "_" \o how] = step.res.src
     \* "without being told the format": neither by an argument nor by the file name
     /\ \A k \in {"pathwrong", "pathnoext"} : step.res.read[k \o "_detect"] = step.res.src)
C16Clauses(step) ==
  IF step.op.op = "IO" /\ step.exc = "none"
  THEN {C16_same_text(step), C16_same_doc(step), C16_read(step)} ELSE {}

-----------------------------------------------------------------------------
(* C01 / C10 (PROV-JSON) — round trip and independent reading                   *)
(* step.src / step.back = [recs, bundles: Seq([id, recs])] projections of the   *)
(* source and of the document read back; step.ast = lexed text                  *)
DocBagEq(d1, d2) ==
  /\ SameBag(ContentSeq(d1.recs), ContentSeq(d2.recs))
  /\ Len(d1.bundles) = Len(d2.bundles)
  /\ {d1.bundles[i].id : i \in 1..Len(d1.bundles)} = {d2.bundles[i].id : i \in 1..Len(d2.bundles)}
  /\ \A i \in 1..Len(d1.bundles) : \A j \in 1..Len(d2.bundles) :
        d1.bundles[i].id = d2.bundles[j].id =>
          SameBag(ContentSeq(d1.bundles[i].recs), ContentSeq(d2.bundles[j].recs))
(* the same for a reader result whose records already carry attribute SETS *)
ReadBagEq(rd, d) ==
  /\ SameBag(rd.recs, ContentSeq(d.recs))
  /\ Len(rd.bundles) = Len(d.bundles)
  /\ {rd.bundles[i].id : i \in 1..Len(rd.bundles)} = {d.bundles[i].id : i \in 1..Len(d.bundles)}
  /\ \A i \in 1..Len(rd.bundles) : \A j \in 1..Len(d.bundles) :
        rd.bundles[i].id = d.bundles[j].id => SameBag(rd.bundles[i].recs, ContentSeq(d.bundles[j].recs))
IsRT(step, fmt) == step.op.op = "RT" /\ step.op.fmt = fmt

C01_noexc(step) == Cl("C01_noexc", IsRT(step, "json"), step.exc = "none")
C01_rt(step) ==
  Cl("C01_rt", IsRT(step, "json") /\ step.exc = "none", DocBagEq(step.back, step.src))
C10_wf_json(step) ==
  Cl("C10_wf_json", IsRT(step, "json") /\ step.stage \in {"read", "done"}, WfJSON(step.ast))
C10_read_json(step) ==
  Cl("C10_read_json", IsRT(step, "json") /\ step.stage \in {"read", "done"} /\ WfJSON(step.ast),
     ReadBagEq(SpecReadJSON(step.ast), step.src))
C02_noexc(step) == Cl("C02_noexc", IsRT(step, "xml"), step.exc = "none")
C02_rt(step) ==
  Cl("C02_rt", IsRT(step, "xml") /\ step.exc = "none", DocBagEq(step.back, step.src))
C10_wf_xml(step) ==
  Cl("C10_wf_xml", IsRT(step, "xml") /\ step.stage \in {"read", "done"}, WfXML(step.ast))
C10_read_xml(step) ==
  Cl("C10_read_xml", IsRT(step, "xml") /\ step.stage \in {"read", "done"} /\ WfXML(step.ast),
     ReadBagEq(SpecReadXML(step.ast), step.src))
C02Clauses(step) == IF IsRT(step, "xml") THEN {C02_noexc(step), C02_rt(step)} ELSE {}
(* ---- reading the PROV-N writer model's output (ProvNW.EncPN) as the recommendation says: the   *)
(* rules of SpecProvN on the reduced form, for the model-level invariant ProvNDenotes            *)
APNLit(l, inner, outer) ==
  CASE l.l = "int" -> [t |-> "int", v |-> l.v]
    [] l.l = "qn"  -> [t |-> "qn", u |-> PNName(l.qn, inner, outer)]
    [] l.l = "str" ->
         IF l.lang # "" THEN [t |-> "lang", v |-> l.pay, lang |-> l.lang]
         ELSE IF l.dt = <<>> THEN [t |-> "str", v |-> l.pay]
         ELSE IF l.dt[1] = IsoMark THEN [t |-> "isostr", v |-> l.pay]      \* marker <<IsoMark>> of PNLitOf
         ELSE LET dt == PNName(l.dt[1], inner, outer)
                  x  == XsdT(dt)
              IN IF dt = NONE THEN Bad("unbound datatype")
                 ELSE IF x = "string" THEN [t |-> "str", v |-> l.pay]
                 ELSE IF x \in JIntTypes THEN [t |-> "int", v |-> l.pay]
                 ELSE IF x \in {"double", "float", "decimal"} THEN [t |-> "float", v |-> l.pay]
                 ELSE IF x = "boolean" THEN [t |-> "bool", v |-> l.pay]
                 ELSE IF x = "dateTime" THEN [t |-> "dt", v |-> l.pay]
                 ELSE IF x = "anyURI" THEN [t |-> "uri", u |-> l.pay]
                 ELSE [t |-> "lit", v |-> l.pay, dt |-> dt]
APNRecord(e, inner, outer) ==
  LET T == PNTable[e.name]
      args == PNArgs(e, T)
      ident == IF T.idarg THEN PNName(e.args[1].qn, inner, outer)
               ELSE IF e.id = <<>> THEN NONE ELSE PNName(e.id[1], inner, outer)
      formal(i) == IF args[i].a = "time" THEN [t |-> "dt", v |-> args[i].iso]
                   ELSE [t |-> "qn", u |-> PNName(args[i].qn, inner, outer)]
  IN [k |-> T.k, id |-> ident,
      attrs |-> {[a |-> <<"prov#", T.pos[i]>>, v |-> formal(i)] : i \in {j \in 1..Len(args) : args[j].a # "marker"}}
                \cup {[a |-> PNName(x[1], inner, outer), v |-> APNLit(x[2], inner, outer)] : x \in e.attrs}]
APNWf(pn) ==
  /\ \A i \in 1..Len(pn.exprs) : WfExpr(pn.exprs[i])
  /\ \A b \in 1..Len(pn.bundles) : \A i \in 1..Len(pn.bundles[b].exprs) : WfExpr(pn.bundles[b].exprs[i])
ReadAPNS(pn, own) ==
  LET top == PNScope(pn.decls)
      none == [pfx |-> <<>>, dflt |-> NONE]
  IN [recs |-> [i \in 1..Len(pn.exprs) |-> APNRecord(pn.exprs[i], top, none)],
      bundles |-> [b \in 1..Len(pn.bundles) |->
                     LET sc == PNScope(pn.bundles[b].decls) IN
                     [id |-> IF own THEN PNName(pn.bundles[b].id, sc, top) ELSE PNName(pn.bundles[b].id, top, none),
                      recs |-> [i \in 1..Len(pn.bundles[b].exprs) |-> APNRecord(pn.bundles[b].exprs[i], sc, top)]]]]
ReadAPN(pn) == ReadAPNS(pn, FALSE)

C06_parses(step) == Cl("C06_parses", IsRT(step, "provn"), step.exc = "none")
C06_grammar(step) == Cl("C06_grammar", IsRT(step, "provn") /\ step.exc = "none", WfProvN(step.ast))
C06_denotes(step) ==
  Cl("C06_denotes", IsRT(step, "provn") /\ step.exc = "none" /\ WfProvN(step.ast),
     ReadBagEq(SpecReadProvN(step.ast), step.src) \/ ReadBagEq(SpecReadProvNS(step.ast, TRUE), step.src))
C06Clauses(step) == IF IsRT(step, "provn") THEN {C06_parses(step), C06_grammar(step), C06_denotes(step)} ELSE {}
(* C07 — PROV-O (TriG) round trip preserves the unified content of expressible documents; *)
(* set based per container because RDF is a set of triples                                 *)
USet(recs) == SeqToSet(UnifiedSpec(recs))
C07_noexc(step) == Cl("C07_noexc", IsRT(step, "rdf"), step.exc = "none")
C07_rt(step) ==
  Cl("C07_rt", IsRT(step, "rdf") /\ step.exc = "none",
     /\ SeqToSet(ContentSeq(step.back.recs)) = USet(step.src.recs)
     /\ {step.back.bundles[i].id : i \in 1..Len(step.back.bundles)}
          = {step.src.bundles[i].id : i \in 1..Len(step.src.bundles)}
     /\ \A i \in 1..Len(step.src.bundles) : \A j \in 1..Len(step.back.bundles) :
          step.src.bundles[i].id = step.back.bundles[j].id =>
             SeqToSet(ContentSeq(step.back.bundles[j].recs)) = USet(step.src.bundles[i].recs))
(* every relation comes back exactly once: never zero (C07_rt) and never more often than *)
(* the source states it                                                                  *)
C07_one(step) ==
  LET atmost(back, src) ==
        \A i \in 1..Len(back) : back[i].k \in Elements \/
           CountIn(ContentSeq(back), Content(back[i])) <= CountIn(UnifiedSpec(src), Content(back[i]))
  IN Cl("C07_one", IsRT(step, "rdf") /\ step.exc = "none",
        /\ atmost(step.back.recs, step.src.recs)
        /\ \A j \in 1..Len(step.back.bundles) : \A i \in 1..Len(step.src.bundles) :
             step.src.bundles[i].id = step.back.bundles[j].id =>
                atmost(step.back.bundles[j].recs, step.src.bundles[i].recs))
C07Clauses(step) == IF IsRT(step, "rdf") THEN {C07_noexc(step), C07_rt(step), C07_one(step)} ELSE {}
(* C11 — reading foreign PROV-JSON / PROV-XML is stable under re-serialisation           *)
(* step.res = [exc, d: loaded, d2: loaded again after the library re-wrote d, d3: after the *)
(* other format, cross]; for Load also step.src (what the text was generated from); for       *)
(* Corpus also step.res0 (the unmutated file)                                                 *)
Skeleton(recs) == [i \in 1..Len(recs) |->
                     [k |-> recs[i].k, id |-> recs[i].id,
                      attrs |-> {<<a, CountIn([j \in 1..Len(recs[i].attrs) |-> recs[i].attrs[j].a], a)>>
                                   : a \in {recs[i].attrs[j].a : j \in 1..Len(recs[i].attrs)}}]]
SkeletonEq(d1, d2) ==
  /\ SameBag(Skeleton(d1.recs), Skeleton(d2.recs))
  /\ Len(d1.bundles) = Len(d2.bundles)
  /\ \A i \in 1..Len(d1.bundles) : \E j \in 1..Len(d2.bundles) :
        d1.bundles[i].id = d2.bundles[j].id /\ SameBag(Skeleton(d1.bundles[i].recs), Skeleton(d2.bundles[j].recs))
IsC11(step) == step.op.op \in {"Load", "Corpus"}
Loaded(step) == IsC11(step) /\ step.exc = "none" /\ step.res.exc = "none"
(* a failure to load is a library error or a ValueError from a lexical form, never an arbitrary crash *)
C11_error(step) ==
  Cl("C11_error", IsC11(step) /\ step.exc = "none" /\ step.res.exc # "none",
     SubSeq(step.res.exc, 1, 6) = "Error:" \/ SubSeq(step.res.exc, 1, 11) = "ValueError:")
C11_stable(step) == Cl("C11_stable", Loaded(step), DocBagEq(step.res.d2, step.res.d))
(* PROV-XML spells a qualified-name value as xsi:type="xsd:QName", so a document holding a *)
(* LITERAL typed xsd:QName is not XML-expressible (C02) and is outside the cross clause     *)
HasQNameLiteral(d) ==
  LET recs == d.recs \o FlattenSeq([i \in 1..Len(d.bundles) |-> d.bundles[i].recs]) IN
  \E i \in 1..Len(recs) : \E j \in 1..Len(recs[i].attrs) :
     recs[i].attrs[j].v.t = "lit" /\ recs[i].attrs[j].v.dt = <<"xsd#", "QName">>
C11_cross(step) ==
  Cl("C11_cross", Loaded(step) /\ step.res.cross # "none" /\ ~HasQNameLiteral(step.res.d),
     step.res.cross = "done" /\ DocBagEq(step.res.d3, step.res.d))
(* nothing dropped, nothing invented: the records, their identifiers and the number of values *)
(* per attribute are those of the text; exactly the same content when every spelling used is   *)
(* one the library normalises                                                                  *)
C11_faithful(step) ==
  Cl("C11_faithful", step.op.op = "Load" /\ Loaded(step),
     /\ SkeletonEq(step.res.d, step.src)
     /\ step.op.fl.qn # "QName" => DocBagEq(step.res.d, step.src))
(* a content-preserving mutation of a corpus file loads to the same content as the file itself *)
C11_preserve(step) ==
  Cl("C11_preserve", step.op.op = "Corpus" /\ Loaded(step) /\ step.res0.exc = "none",
     DocBagEq(step.res.d, step.res0.d))
C11_corpus_loads(step) ==
  Cl("C11_corpus_loads", step.op.op = "Corpus" /\ step.exc = "none" /\ step.res0.exc = "none", step.res.exc = "none")
C11Clauses(step) ==
  IF IsC11(step)
  THEN {C11_error(step), C11_stable(step), C11_cross(step)}
       \cup (IF step.op.op = "Load" THEN {C11_faithful(step)} ELSE {C11_preserve(step), C11_corpus_loads(step)})
  ELSE {}
C01Clauses(step) == IF IsRT(step, "json") THEN {C01_noexc(step), C01_rt(step)} ELSE {}
C10Clauses(step) == IF IsRT(step, "json") THEN {C10_wf_json(step), C10_read_json(step)}
                    ELSE IF IsRT(step, "xml") THEN {C10_wf_xml(step), C10_read_xml(step)} ELSE {}

-----------------------------------------------------------------------------
(* C13 — exporting never mutates the document and is repeatable                 *)
(* step.res.items = Seq([ex, exc, prev: "same"|"diff"|"first", twin: "same"|"diff"]) *)
C13_pure(step) ==
  Cl("C13_pure", step.op.op = "Export",
     /\ \A h \in DOMAIN step.pre.con : SameCon(step, h)
     \* objects a call was only given to read (the other operand of a comparison) look as before
     /\ \A i \in 1..Len(step.res.items) : step.res.items[i].frame)
C13_repeat(step) ==
  Cl("C13_repeat", step.op.op = "Export" /\ \E i \in 1..Len(step.res.items) : step.res.items[i].prev # "first",
     \A i \in 1..Len(step.res.items) : step.res.items[i].prev # "diff")
C13_twin(step) ==
  Cl("C13_twin", step.op.op = "Export", \A i \in 1..Len(step.res.items) : step.res.items[i].twin # "diff")
C13Clauses(step) == IF step.op.op = "Export" /\ step.exc = "none"
                    THEN {C13_pure(step), C13_repeat(step), C13_twin(step)} ELSE {}

-----------------------------------------------------------------------------
(* C14 — graph conversion mirrors the document and converts back to its unified form *)
(* step.res = [nodes: Seq([k, id, inf]), edges: Seq([s, d, rel]), back: [recs]] ;    *)
(* step.src = projection of the (bundle-free) source                                 *)
InferKind == [entity |-> "entity", activity |-> "activity", agent |-> "agent", trigger |-> "entity",
              generatedEntity |-> "entity", usedEntity |-> "entity", delegate |-> "agent",
              responsible |-> "agent", specificEntity |-> "entity", generalEntity |-> "entity",
              alternate1 |-> "entity", alternate2 |-> "entity", collection |-> "entity",
              informed |-> "activity", informant |-> "activity", plan |-> "entity",
              ender |-> "entity", starter |-> "entity", influencee |-> "none", influencer |-> "none",
              bundle |-> "bundle"]
F1(r) == Formals[r.k][1]
F2(r) == Formals[r.k][2]
RefOf(r, f) == LET vs == {x.v : x \in {y \in r.attrs : y.a = ProvU(f)}} IN
               IF vs = {} THEN NONE ELSE (CHOOSE v \in vs : TRUE).u
GUnified(step) == UnifiedSpec(step.src.recs)
GElements(U) == SelectSeq(U, LAMBDA r : r.k \in Elements)
GDeclared(U) == {U[i].id : i \in {j \in 1..Len(U) : U[j].k \in Elements}}
GHasEnds(r) == r.k \notin Elements /\ Len(Formals[r.k]) >= 2 /\ RefOf(r, F1(r)) # NONE /\ RefOf(r, F2(r)) # NONE
(* influence with an undeclared endpoint is documented as skipped and not claimed *)
GClaimed(U, r) == ~(r.k = "influence" /\ ~({RefOf(r, F1(r)), RefOf(r, F2(r))} \subseteq GDeclared(U)))
GEdgeRecs(U) == SelectSeq(U, LAMBDA r : GHasEnds(r) /\ GClaimed(U, r))
GInferred(U) ==
  {[k |-> InferKind[f], id |-> u, inf |-> TRUE] :
     <<f, u>> \in UNION {{<<F1(r), RefOf(r, F1(r))>>, <<F2(r), RefOf(r, F2(r))>>} : r \in SeqToSet(GEdgeRecs(U))}}
SkippedInfluence(U) == \E i \in 1..Len(U) : GHasEnds(U[i]) /\ ~GClaimed(U, U[i])
C14_nodes(step) ==
  LET U == GUnified(step)
      els == GElements(U)
      got == step.res.nodes
      declared == SelectSeq(got, LAMBDA n : ~n.inf)
      inferred == {got[i] : i \in {j \in 1..Len(got) : got[j].inf}}
  IN Cl("C14_nodes", step.op.op = "Graph" /\ step.exc = "none" /\ ~SkippedInfluence(U),
        /\ SameBag([i \in 1..Len(declared) |-> [k |-> declared[i].k, id |-> declared[i].id]],
                   [i \in 1..Len(els) |-> [k |-> els[i].k, id |-> els[i].id]])
        /\ Cardinality(inferred) = Len(got) - Len(declared)          \* no inferred node twice
        /\ Cardinality({n.id : n \in inferred}) = Len(got) - Len(declared)   \* ONE per undeclared endpoint, whatever
                                                                            \* kinds the positions referring to it suggest
        /\ {n.id : n \in inferred} = {n.id : n \in GInferred(U)} \ GDeclared(U)
        /\ \A n \in inferred : \E m \in GInferred(U) : m.id = n.id /\ m.k = n.k)
C14_edges(step) ==
  LET U == GUnified(step)
      want == GEdgeRecs(U)
  IN Cl("C14_edges", step.op.op = "Graph" /\ step.exc = "none" /\ ~SkippedInfluence(U),
        SameBag([i \in 1..Len(step.res.edges) |->
                   [s |-> step.res.edges[i].s, d |-> step.res.edges[i].d, rel |-> Content(step.res.edges[i].rel)]],
                [i \in 1..Len(want) |->
                   [s |-> RefOf(want[i], F1(want[i])), d |-> RefOf(want[i], F2(want[i])), rel |-> want[i]]]))
C14_back(step) ==
  LET U == GUnified(step) IN
  Cl("C14_back", step.op.op = "Graph" /\ step.exc = "none" /\ ~SkippedInfluence(U),
     SameBag(ContentSeq(step.res.back.recs), GElements(U) \o GEdgeRecs(U)))
(* the conversion (both ways) raises only when the document cannot be unified *)
C14_noexc(step) ==
  Cl("C14_noexc", step.op.op = "Graph" /\ "con" \in DOMAIN step.pre
                  /\ ~ConflictAnyKind(step.pre.con[step.op.h].recs),
     step.exc = "none")
C14Clauses(step) == IF step.op.op = "Graph" THEN {C14_nodes(step), C14_edges(step), C14_back(step), C14_noexc(step)} ELSE {}

-----------------------------------------------------------------------------
(* C15 — DOT output is always valid Graphviz: one node per element, one path per  *)
(* relation.  step.res = the structure Graphviz itself reports for the emitted    *)
(* text (harness/lex_dot.py); step.src = projection of the source; step.op.opts = *)
(* [nary, labels, elattrs, relattrs: BOOLEAN, dir: STRING]                        *)
DLabel == [generation |-> "wasGeneratedBy", usage |-> "used", communication |-> "wasInformedBy",
           start |-> "wasStartedBy", end |-> "wasEndedBy", invalidation |-> "wasInvalidatedBy",
           derivation |-> "wasDerivedFrom", attribution |-> "wasAttributedTo",
           association |-> "wasAssociatedWith", delegation |-> "actedOnBehalfOf",
           influence |-> "wasInfluencedBy", alternate |-> "alternateOf",
           specialization |-> "specializationOf", mention |-> "mentionOf", membership |-> "hadMember"]
DShape == [entity |-> "oval", activity |-> "box", agent |-> "house"]
DContainers(src) == <<[n |-> 0, recs |-> UnifiedSpec(src.recs)]>> \o
                    [i \in 1..Len(src.bundles) |-> [n |-> i, recs |-> UnifiedSpec(src.bundles[i].recs)]]
RefPos(k) == SelectSeq(Formals[k], LAMBDA f : f \in RefAttrs)
OrNone(u) == u          \* NONE is <<>>, the lexer's "no URL"
DOther(r) == {x \in r.attrs : ~IsRefU(x.a)}
DPath(r, o) ==
  LET pos == RefPos(r.k)
      nary == Len(pos) > 2 /\ o.nary
      annot == o.relattrs /\ DOther(r) # {}
  IN [label |-> DLabel[r.k], tail |-> RefOf(r, pos[1]), head |-> RefOf(r, pos[2]),
      via |-> nary \/ annot,
      extra |-> IF nary THEN {<<pos[i], RefOf(r, pos[i])>> : i \in {j \in 3..Len(pos) : RefOf(r, pos[j]) # NONE}} ELSE {},
      ann |-> annot]
DRels(cs) == FlattenSeq([i \in 1..Len(cs) |-> SelectSeq(cs[i].recs, LAMBDA r : r.k \notin Elements)])
DElsOf(c) == SelectSeq(c.recs, LAMBDA r : r.k \in Elements)
DReferenced(src, o) ==
  UNION {LET p == DPath(r, o) IN ({p.tail, p.head} \cup {e[2] : e \in p.extra}) \ {NONE}
           : r \in SeqToSet(DRels(DContainers(src)))}
IsDot(step) == step.op.op = "Dot" /\ step.exc = "none"
C15_accepted(step) == Cl("C15_accepted", step.op.op = "Dot", step.exc = "none" /\ step.res.ok)
(* Nodes that carry a URL stand for names.  Per container c (the URL of the cluster the node is  *)
(* drawn in; NONE = top level) and URL u: every element record is drawn (at least as many nodes  *)
(* as element records of that identifier there); beyond the element records a name has at most   *)
(* ONE further node in the whole drawing (the node of a merely referenced name, which may have   *)
(* been drawn before a later bundle declared it); nothing else has a node.  No shape, colour or  *)
(* object name of the library's style is used.                                                   *)
DConUrl(src, n) == IF n = 0 THEN NONE ELSE src.bundles[n].id
C15_nodes(step) ==
  LET cs == DContainers(step.src)
      nodes == step.res.nodes
      declIn(i, u) == Cardinality({j \in 1..Len(DElsOf(cs[i])) : DElsOf(cs[i])[j].id = u})
      declAll(u) == LET RECURSIVE sum(_)
                        sum(i) == IF i = 0 THEN 0 ELSE declIn(i, u) + sum(i - 1)
                    IN sum(Len(cs))
      drawnIn(i, u) == Cardinality({k \in 1..Len(nodes) : nodes[k].url = u /\ nodes[k].c = DConUrl(step.src, cs[i].n)})
      drawnAll(u) == Cardinality({k \in 1..Len(nodes) : nodes[k].url = u})
      urls == {nodes[k].url : k \in 1..Len(nodes)}
              \cup UNION {{DElsOf(cs[i])[j].id : j \in 1..Len(DElsOf(cs[i]))} : i \in 1..Len(cs)}
      refd == DReferenced(step.src, step.op.opts)
  IN Cl("C15_nodes", IsDot(step) /\ step.res.ok,
        /\ \A u \in urls : \A i \in 1..Len(cs) : drawnIn(i, u) >= declIn(i, u)
        /\ \A u \in urls : drawnAll(u) <= declAll(u) + (IF u \in refd THEN 1 ELSE 0)
        /\ \A u \in refd : drawnAll(u) >= 1
        /\ \A k \in 1..Len(nodes) : \E i \in 1..Len(cs) : nodes[k].c = DConUrl(step.src, cs[i].n))
C15_edges(step) ==
  LET rels == DRels(DContainers(step.src))
      want == [i \in 1..Len(rels) |-> DPath(rels[i], step.op.opts)]
      got == [i \in 1..Len(step.res.paths) |->
                LET p == step.res.paths[i] IN
                [label |-> p.label, tail |-> p.tail, head |-> p.head, via |-> p.via,
                 extra |-> {<<p.extra[j][1], p.extra[j][2]>> : j \in 1..Len(p.extra)}, ann |-> p.ann]]
  IN Cl("C15_edges", IsDot(step) /\ step.res.ok /\ Len(rels) > 0,
        /\ SameBag(got, want)
        /\ \A i \in 1..Len(step.res.paths) : step.res.paths[i].nseg2 = 1)
C15_clusters(step) ==
  Cl("C15_clusters", IsDot(step) /\ step.res.ok,
     /\ Len(step.res.clusters) = Len(step.src.bundles)
     /\ {step.res.clusters[i].url : i \in 1..Len(step.res.clusters)} = {step.src.bundles[j].id : j \in 1..Len(step.src.bundles)})
C15_annotations(step) ==
  LET o == step.op.opts
      cs == DContainers(step.src)
      rowsOf(r) == LET sq == SetToSeq(DOther(r)) IN [i \in 1..Len(sq) |-> sq[i].a]
      wantEl == IF o.elattrs
                THEN SelectSeq(FlattenSeq([i \in 1..Len(cs) |-> DElsOf(cs[i])]), LAMBDA r : DOther(r) # {})
                ELSE <<>>
      wantRel == SelectSeq(DRels(cs), LAMBDA r : DPath(r, o).ann)
      norm(on, blank, rows) == [on |-> on, blank |-> blank,
                                rows |-> {<<a, CountIn(rows, a)>> : a \in SeqToSet(rows)}]
      want == [i \in 1..Len(wantEl) |-> norm(wantEl[i].id, FALSE, rowsOf(wantEl[i]))]
              \o [i \in 1..Len(wantRel) |-> norm(NONE, TRUE, rowsOf(wantRel[i]))]
      got == [i \in 1..Len(step.res.anns) |->
                norm(step.res.anns[i].on, step.res.anns[i].onblank, step.res.anns[i].rows)]
  IN Cl("C15_annotations", IsDot(step) /\ step.res.ok, SameBag(got, want))
(* with use_labels a labelled element is drawn with its label as the first rendered text *)
(* run and its identifier as the second; the text Graphviz renders is the label itself    *)
(* (this is what detects markup injection that happens to stay well-formed)                *)
C15_labels(step) ==
  LET cs == DContainers(step.src)
      nodes == step.res.nodes
      labOf(r) == {x.v.v : x \in {y \in r.attrs : y.a = ProvU("label") /\ y.v.t \in {"str", "lang"}}}
      conOf(n) == {i \in 1..Len(cs) : DConUrl(step.src, cs[i].n) = n.c}
      labelsOf(n) == UNION {labOf(r) : r \in UNION {{q \in SeqToSet(DElsOf(cs[i])) : q.id = n.url} : i \in conOf(n)}}
      labelledRecs == {ij \in UNION {{<<i, j>> : j \in 1..Len(DElsOf(cs[i]))} : i \in 1..Len(cs)} :
                         labOf(DElsOf(cs[ij[1]])[ij[2]]) # {}}
      shows(k, L) == nodes[k].nruns = 2 /\ SeqToSet(nodes[k].text1) \cap L # {}
  IN Cl("C15_labels", IsDot(step) /\ step.res.ok /\ step.op.opts.labels /\ labelledRecs # {},
        \* every labelled element record has a node (there, under its URL) whose first rendered run is
        \* one of its labels, followed by the identifier ...
        /\ \A ij \in labelledRecs :
              LET r == DElsOf(cs[ij[1]])[ij[2]] IN
              \E k \in 1..Len(nodes) : nodes[k].url = r.id /\ nodes[k].c = DConUrl(step.src, cs[ij[1]].n) /\ shows(k, labOf(r))
        \* ... and a node drawn with two runs shows a label of a record of that name (nothing injected)
        /\ \A k \in 1..Len(nodes) : (nodes[k].nruns >= 2 /\ labelsOf(nodes[k]) # {}) => shows(k, labelsOf(nodes[k])))
C15_rankdir(step) ==
  Cl("C15_rankdir", IsDot(step) /\ step.res.ok,
     step.res.rankdir = (IF step.op.opts.dir \in {"BT", "TB", "LR", "RL"} THEN step.op.opts.dir ELSE "BT"))
C15Clauses(step) ==
  IF step.op.op = "Dot"
  THEN {C15_accepted(step), C15_nodes(step), C15_edges(step), C15_clusters(step),
        C15_annotations(step), C15_rankdir(step), C15_labels(step)}
  ELSE {}

-----------------------------------------------------------------------------
(* Conformance (drift) clauses: the model's post-state against the logged   *)
(* one.  A failure here never becomes a VIOLATION (DESIGN 2.5).             *)
M_Names(msPost, mres, step) ==
  Cl("M_Names", TRUE,
     /\ \A h \in DOMAIN step.post.ns :
          /\ h \in DOMAIN msPost.con
          /\ SeqToSet(msPost.mgr[msPost.con[h].mgr].reg) = SeqToSet(step.post.ns[h].reg)
          /\ msPost.mgr[msPost.con[h].mgr].dflt = step.post.ns[h].dflt
     /\ step.op.op \in {"ResQN", "ResStr"} => mres = step.res)

M_Con(msPost, step) ==
  Cl("M_Con", "con" \in DOMAIN step.post,
     \A h \in DOMAIN step.post.con :
        /\ h \in DOMAIN msPost.con
        /\ Len(step.post.con[h].recs) = Len(msPost.con[h].recs)
        /\ \A i \in 1..Len(msPost.con[h].recs) :
             LET m == ProjRec(msPost.con[h].recs[i])
                 o == step.post.con[h].recs[i]
             IN m.k = o.k /\ m.id = o.id /\ m.attrs = SeqToSet(o.attrs)
        /\ ProjCon(msPost.con[h]).kind = step.post.con[h].kind
        /\ ProjCon(msPost.con[h]).id = step.post.con[h].id
        /\ msPost.con[h].bundles = step.post.con[h].bundles)
M_Exc(r, step) == Cl("M_Exc", step.op.op \notin {"Save", "RT", "Export"}, r.exc = step.exc)
(* the recorded file-system events are a run of the protocol of FS.tla (repaired variant) *)
(* the outcome class of every read is what the IO machine (repaired loop) predicts *)
OutcomeClass(d, src) == IF d = src THEN "doc" ELSE IF d = "empty" THEN "empty"
                        ELSE IF SubSeq(d, 1, 5) = "error" THEN "error" ELSE "other"
M_IO(step) ==
  Cl("M_IO", step.op.op = "IO" /\ step.exc = "none" /\ step.op.fmt \in Readable,
     \A k \in {"text", "binary", "path"} :
        /\ OutcomeClass(step.res.read[k \o "_detect"], step.res.src) = ReadDetect(TRUE, k, step.op.fmt)
        /\ OutcomeClass(step.res.read[k \o "_explicit"], step.res.src) = ReadExplicit(k, step.op.fmt))
M_FS(step) ==
  Cl("M_FS", step.op.op = "Save",
     FsRun(Repaired, FsInit(step.op.existing), step.events, 1, step.op.name).ok)
(* the PROV-JSON text the library wrote is what the transcription of its writer (ProvJson.tla) *)
(* produces from the model state                                                               *)
M_Json(msPost, step) ==
  Cl("M_Json", IsRT(step, "json") /\ step.stage \in {"read", "done"} /\ WfJSON(step.ast),
     SameAJ(AbsJ(step.ast), EncAJ(msPost, step.op.h)))
(* the document the library's PROV-JSON reader returned - content, registered namespaces and     *)
(* default namespace of the document and of every bundle - is the one the transcription of the    *)
(* reader (ProvJson.DecJ) produces from what the writer model emits; it fails iff that one fails  *)
NsSame(obsNs, modNs) == SeqToSet(obsNs.reg) = SeqToSet(modNs.reg) /\ obsNs.dflt = modNs.dflt
M_JsonBack(msPost, step) ==
  Cl("M_JsonBack", IsRT(step, "json") /\ step.stage \in {"read", "done"},
     LET r == DecJ(EncAJ(msPost, step.op.h)) IN
     IF step.exc # "none" THEN r.exc # "none"
     ELSE /\ r.exc = "none"
          /\ LET rd == RdOf(r.st, RH) IN
             /\ ReadBagEq(rd, step.back)
             /\ NsSame(step.back.ns, rd.ns)
             /\ \A i \in 1..Len(step.back.bundles) : \E j \in 1..Len(rd.bundles) :
                   rd.bundles[j].id = step.back.bundles[i].id /\ NsSame(step.back.bundles[i].ns, rd.bundles[j].ns))
(* the PROV-N text the library printed is what the transcription of its printer (ProvNW.tla)   *)
(* produces from the model state: same declarations in the same order, same expressions with   *)
(* the same arguments and markers in the same positions, same attribute sets                   *)
M_ProvN(msPost, step) ==
  Cl("M_ProvN", IsRT(step, "provn") /\ step.exc = "none", AbsPN(step.ast) = EncPN(msPost, step.op.h))
(* the PROV-XML text the library wrote is what the transcription of its writer (ProvXmlW.tla:  *)
(* namespace maps, subtype element names, prov:ref, the xsi:type decision) produces            *)
M_Xml(msPost, step) ==
  Cl("M_Xml", IsRT(step, "xml") /\ step.stage \in {"read", "done"} /\ WfXML(step.ast),
     SameAX(AbsX(step.ast), EncAX(msPost, step.op.h, step.op.opts \in {"force", "alt"}, AbsX(step.ast))))
(* the document the library's PROV-XML reader returned is the one the transcription of the reader *)
(* (ProvXmlW.DecX) produces from what the writer model emits: same content; and, where every      *)
(* namespace has one prefix in scope (else the prefix lxml writes an element with is its choice),  *)
(* the same registered and default namespaces in the document and in every bundle                  *)
M_XmlBack(msPost, step) ==
  Cl("M_XmlBack", IsRT(step, "xml") /\ step.stage \in {"read", "done"} /\ WfXML(step.ast),
     LET ax == EncAX(msPost, step.op.h, step.op.opts \in {"force", "alt"}, AbsX(step.ast))
         r  == DecX(ax)
         clear == ~XAmbiguous(ax.ns) /\ \A i \in 1..Len(ax.bundles) : ~XAmbiguous(ax.bundles[i].ns)
     IN IF step.exc # "none" THEN r.exc # "none"
        ELSE /\ r.exc = "none"
             /\ LET rd == RdOf(r.st, RH) IN
                /\ ReadBagEq(rd, step.back)
                /\ clear => /\ NsSame(step.back.ns, rd.ns)
                            /\ \A i \in 1..Len(step.back.bundles) : \E j \in 1..Len(rd.bundles) :
                                  rd.bundles[j].id = step.back.bundles[i].id
                                  /\ NsSame(step.back.bundles[i].ns, rd.bundles[j].ns))
(* the PROV-O text the library wrote holds the triples the transcription of its writer (ProvRdfW.tla) *)
(* produces from the model state - graph by graph, blank nodes as stars                              *)
M_Rdf(msPost, step) ==
  Cl("M_Rdf", IsRT(step, "rdf") /\ step.stage \in {"read", "done"} /\ "graphs" \in DOMAIN step.ast
              /\ RdfExpressible(msPost, step.op.h),
     SameRdf([i \in 1..Len(step.ast.graphs) |-> AbsRGraph(step.ast.graphs[i])], EncRdf(msPost, step.op.h)))
M_Eq(r, step) == Cl("M_Eq", step.op.op = "CompareAll" /\ step.exc = "none", r.res = step.res.eq)

=============================================================================
