-------------------------------- MODULE Prov --------------------------------
(***************************************************************************)
(* Top-level state machine of the prov library: one abstract state `ms'    *)
(* and one operator ApplyF(ms, act) per public call, written as a          *)
(* functional core (state, action record) -> [st, res, exc].               *)
(*                                                                         *)
(* The same ApplyF is used three ways:                                     *)
(*  (A) the MC_ modules : Next == \E a \in Acts(ms) : ms' = ApplyF(ms, a).st      *)
(*  (B) the explored transitions are printed and replayed on the real code *)
(*  (C) Trace.tla folds ApplyF over the recorded calls of a real execution *)
(*      and compares (drift clauses, prefix M_) while the property clauses of     *)
(*      Clauses.tla are evaluated on the recorded observations only.       *)
(*                                                                         *)
(* ms.mgr    : manager id -> NamespaceManager state (Names.tla)            *)
(* ms.handed : ghost: every name a scope has returned,                     *)
(*             as [s: scope, str: printed form, uri: its URI]              *)
(***************************************************************************)
EXTENDS Names

Ok(st, res)        == [st |-> st, res |-> res, exc |-> "none"]
Raise(st, exc)     == [st |-> st, res |-> NoQN, exc |-> exc]

Hand(s, q) == IF q.ok THEN {[s |-> s, str |-> Printed(q), uri |-> Uri(q)]} ELSE {}

(* ---- namespace operations on a container h (manager id = h) ---- *)
DoAddNs(ms, a) ==
  LET r == AddNsF(ms.mgr[a.h], a.p, a.u) IN
  Ok([ms EXCEPT !.mgr[a.h] = r.st], QN(r.ns[1], r.ns[2], <<>>))

DoSetDefault(ms, a) ==
  Ok([ms EXCEPT !.mgr[a.h] = SetDefaultF(@, a.u)], NoQN)

DoResQN(ms, a) ==
  LET r == ResolveQNF(ms.mgr[a.h], a.p, a.ns, a.l) IN
  Ok([ms EXCEPT !.mgr[a.h] = r.st, !.handed = @ \cup Hand(a.h, r.q)], r.q)

DoResStr(ms, a) ==
  LET q == ResolveStrF(ms.mgr, a.h, a.str) IN
  Ok([ms EXCEPT !.handed = @ \cup Hand(a.h, q)], q)

ApplyF(ms, a) ==
  CASE a.op = "AddNs"      -> DoAddNs(ms, a)
    [] a.op = "SetDefault" -> DoSetDefault(ms, a)
    [] a.op = "ResQN"      -> DoResQN(ms, a)
    [] a.op = "ResStr"     -> DoResStr(ms, a)

(* Fold ApplyF over a sequence of actions *)
RECURSIVE RunF(_, _, _)
RunF(ms, acts, n) == IF n = 0 THEN ms ELSE ApplyF(RunF(ms, acts, n - 1), acts[n]).st

(* ---- projection of the model state, in the shape the harness logs ---- *)
ProjNs(st) == [reg |-> st.reg, dflt |-> st.dflt]
ProjAllNs(ms) == [h \in DOMAIN ms.mgr |-> ProjNs(ms.mgr[h])]
Parents(ms) == [h \in DOMAIN ms.mgr |-> ms.mgr[h].parent]

(* re-resolution table of every handed-out name, as the harness logs it *)
(* `up' is what the parent scope alone makes of the printed form            *)
ReRes(ms) == {[s |-> e.s, str |-> e.str, uri |-> e.uri,
               now |-> ResolveStrF(ms.mgr, e.s, e.str),
               up  |-> IF ms.mgr[e.s].parent # "" THEN LocalStr(ms.mgr[ms.mgr[e.s].parent], e.str)
                       ELSE NoQN]
               : e \in ms.handed}

=============================================================================
