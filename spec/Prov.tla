-------------------------------- MODULE Prov --------------------------------
(***************************************************************************)
(* Top-level state machine of the prov library: one abstract state `ms'    *)
(* and one operator ApplyF(ms, act) per public call, written as a          *)
(* functional core (state, action record) -> [st, res, exc].               *)
(*                                                                         *)
(* The same ApplyF is used three ways:                                     *)
(*  (A) the MC_ modules : Next == \E a \in Acts(ms) : ms' = ApplyF(ms, a).st *)
(*  (B) the explored transitions are printed and replayed on the real code *)
(*  (C) Trace.tla folds ApplyF over the recorded calls of a real execution *)
(*      and compares (drift clauses, prefix M_) while the property clauses *)
(*      of Clauses.tla are evaluated on the recorded observations only.    *)
(*                                                                         *)
(* ms.mgr    : manager id -> NamespaceManager state (Names.tla)            *)
(* ms.con    : handle -> container (Containers.tla)                        *)
(* ms.handed : ghost: every name a scope has returned through a direct     *)
(*             resolution call, as [s: scope, str: printed form, uri]      *)
(***************************************************************************)
EXTENDS Eq

(* via: "qn" = handed out for a QualifiedName object, "str" = for a string *)
Hand(s, q, via) == IF q.ok THEN {[s |-> s, str |-> Printed(q), uri |-> Uri(q), via |-> via]} ELSE {}
MgrOf(ms, h) == ms.con[h].mgr

(* ---- namespace operations on a container h ---- *)
DoAddNs(ms, a) ==
  LET r == AddNsF(ms.mgr[MgrOf(ms, a.h)], AncTbl(ms.mgr, MgrOf(ms, a.h)), a.p, a.u) IN
  Ok([ms EXCEPT !.mgr[MgrOf(ms, a.h)] = r.st], QN(r.ns[1], r.ns[2], <<>>))

DoSetDefault(ms, a) ==
  Ok([ms EXCEPT !.mgr[MgrOf(ms, a.h)] = SetDefaultF(@, a.u)], NoQN)

DoResQN(ms, a) ==
  LET r == ResolveQNF(ms.mgr[MgrOf(ms, a.h)], AncTbl(ms.mgr, MgrOf(ms, a.h)), a.p, a.ns, a.l) IN
  Ok([ms EXCEPT !.mgr[MgrOf(ms, a.h)] = r.st, !.handed = @ \cup Hand(a.h, r.q, "qn")], r.q)

DoResStr(ms, a) ==
  LET q == ResolveStrF(ms.mgr, MgrOf(ms, a.h), a.str) IN
  Ok([ms EXCEPT !.handed = @ \cup Hand(a.h, q, "str")], q)

(* Export(h, seq): exports do not change the state (C13), except that the exporters   *)
(* which unify first re-validate names in bundles holding duplicate identifiers       *)
(* (known finding KF-unified-registers): only the managers' side effects are kept.     *)
Unifying == {"graph", "dot", "dotlabels", "unified"}
ExportEffect(ms, h) ==
  LET r == DoUnified(ms, [h |-> h, out |-> "~export"]) IN
  [ms EXCEPT !.mgr = [m \in DOMAIN ms.mgr |-> r.st.mgr[m]]]
DoExport(ms, a) ==
  Ok(IF \E i \in 1..Len(a.seq) : a.seq[i] \in Unifying THEN ExportEffect(ms, a.h) ELSE ms, NoQN)

ApplyF(ms, a) ==
  CASE a.op = "AddNs"      -> DoAddNs(ms, a)
    [] a.op = "SetDefault" -> DoSetDefault(ms, a)
    [] a.op = "ResQN"      -> DoResQN(ms, a)
    [] a.op = "ResStr"     -> DoResStr(ms, a)
    [] a.op = "NewRec"     -> DoNewRec(ms, a)
    [] a.op = "AddAttrs"   -> DoAddAttrs(ms, a)
    [] a.op = "SetTime"    -> DoSetTime(ms, a)
    [] a.op = "AddType"    -> DoAddType(ms, a)
    [] a.op = "AddRecord"  -> DoAddRecord(ms, a)
    [] a.op = "Bundle"     -> DoBundle(ms, a)
    [] a.op = "NewBundle"  -> DoNewBundle(ms, a)
    [] a.op = "NewDoc"     -> DoNewDoc(ms, a)
    [] a.op = "Update"     -> DoUpdate(ms, a)
    [] a.op = "AddBundle"  -> DoAddBundle(ms, a)
    [] a.op = "Flattened"  -> DoFlattened(ms, a)
    [] a.op = "DocFromRecs" -> DoDocFromRecs(ms, a)
    [] a.op = "Unified"    -> DoUnified(ms, a)
    [] a.op = "GetRecord"  -> DoGetRecord(ms, a)
    [] a.op = "CompareAll" -> DoCompareAll(ms, a)
    [] a.op = "CopyRec"    -> DoCopyRec(ms, a)
    [] a.op \in {"Graph", "Dot"} -> DoExport(ms, [h |-> a.h, seq |-> <<"graph">>])
    [] a.op \in {"Load", "Corpus"} -> Ok(ms, NoQN)
    [] a.op = "RT"         -> Ok(ms, NoQN)       \* serialisation does not change the state (C13)
    [] a.op = "Export"     -> DoExport(ms, a)
    [] a.op = "IO"         -> Ok(ms, NoQN)       \* the stream side is IO.tla
    [] a.op = "Save"       -> Ok(ms, NoQN)       \* the file-system side is FS.tla

(* Fold ApplyF over a sequence of actions *)
RECURSIVE RunF(_, _, _)
RunF(ms, acts, n) == IF n = 0 THEN ms ELSE ApplyF(RunF(ms, acts, n - 1), acts[n]).st

(* ---- initial worlds (shared by the MC_ modules, Trace.tla and the driver) ---- *)
(* "docbun": a document "doc" and one bundle "bun" of it (identifier prov:bun)    *)
InitDocBun ==
  [mgr |-> ("doc" :> MgrInit("")) @@ ("bun" :> MgrInit("doc")),
   con |-> ("doc" :> [ConInit("doc", "doc", NoQN, "") EXCEPT !.bundles = <<"bun">>])
           @@ ("bun" :> ConInit("bun", "bun", ProvQ("bun"), "doc")),
   handed |-> {}]
InitDoc ==
  [mgr |-> ("doc" :> MgrInit("")),
   con |-> ("doc" :> ConInit("doc", "doc", NoQN, "")),
   handed |-> {}]
InitEmpty == [mgr |-> <<>>, con |-> <<>>, handed |-> {}]
InitMs(init) ==
  CASE init = "docbun" -> InitDocBun
    [] init = "doc"    -> InitDoc
    [] init = "empty"  -> InitEmpty

(* ---- projection of the model state, in the shape the harness logs ---- *)
ProjNs(st) == [reg |-> st.reg, dflt |-> st.dflt]
ProjAllNs(ms) == [h \in DOMAIN ms.con |-> ProjNs(ms.mgr[ms.con[h].mgr])]
Parents(ms) == [h \in DOMAIN ms.con |-> ms.con[h].doc]   \* for a loose record: its bundle

ProjVal(v) ==
  CASE v.t = "qn"  -> [t |-> "qn", u |-> Uri(v.q)]
    [] v.t = "lit" -> [t |-> "lit", v |-> v.v, dt |-> Uri(v.dt)]
    [] OTHER       -> v
ProjRec(r) == [k |-> r.k, id |-> IF r.id.ok THEN Uri(r.id) ELSE NONE,
               attrs |-> {[a |-> Uri(x.a), v |-> ProjVal(x.v)] : x \in r.attrs}]
ProjCon(c) == [recs |-> [i \in 1..Len(c.recs) |-> ProjRec(c.recs[i])],
               kind |-> c.kind, id |-> IF c.id.ok THEN Uri(c.id) ELSE NONE, bundles |-> c.bundles]
ProjAllCon(ms) == [h \in DOMAIN ms.con |-> ProjCon(ms.con[h])]

(* re-resolution table of every handed-out name, as the harness logs it;     *)
(* `up' is what the parent scope alone makes of the printed form            *)
ReRes(ms) == {[s |-> e.s, str |-> e.str, uri |-> e.uri, via |-> e.via,
               now |-> ResolveStrF(ms.mgr, MgrOf(ms, e.s), e.str),
               up  |-> IF ms.con[e.s].doc # ""
                       THEN LocalStr(ms.mgr[MgrOf(ms, ms.con[e.s].doc)], e.str)
                       ELSE NoQN]
               : e \in ms.handed}

=============================================================================
