------------------------------- MODULE SpecJson -------------------------------
(***************************************************************************)
(* An independent reader of PROV-JSON, written from the PROV-JSON W3C      *)
(* member submission (openprovenance.org/prov-json), NOT from the library: *)
(* it shares no table with prov.constants / provjson.py.  Input is the     *)
(* abstract syntax produced by harness/lex_json.py (uniform nodes: str,    *)
(* num, bool, null, obj with ordered items, arr).  Output has the shape of *)
(* the strict projection: [recs: Seq([k, id, attrs: set]), bundles: Seq(   *)
(* [id, recs])], so that it can be compared with the source document.      *)
(*                                                                         *)
(* Rules (section numbers of the submission):                              *)
(*  2.1  top level: "prefix", "bundle" and the record-kind keys            *)
(*  2.2  qualified names prefix:local resolved through "prefix" of the     *)
(*       enclosing bundle, then of the document; "default" key = default   *)
(*       namespace; prov, xsd predeclared                                  *)
(*  2.3  each kind maps identifier -> attribute object, or -> array of     *)
(*       attribute objects when the identifier is repeated; "_:" ids are   *)
(*       blank (no identifier)                                             *)
(*  2.4  PROV formal attributes under their prov:* keys: qualified-name    *)
(*       strings, or xsd:dateTime strings for the three time attributes    *)
(*  2.5  other values: string | number | boolean | {"$", "type"} |         *)
(*       {"$", "lang"} ; several values as an array                        *)
(***************************************************************************)
EXTENDS Values

JKind == [ entity |-> "entity", activity |-> "activity", agent |-> "agent",
           wasGeneratedBy |-> "generation", used |-> "usage", wasInformedBy |-> "communication",
           wasStartedBy |-> "start", wasEndedBy |-> "end", wasInvalidatedBy |-> "invalidation",
           wasDerivedFrom |-> "derivation", wasAttributedTo |-> "attribution",
           wasAssociatedWith |-> "association", actedOnBehalfOf |-> "delegation",
           wasInfluencedBy |-> "influence", specializationOf |-> "specialization",
           alternateOf |-> "alternate", mentionOf |-> "mention", hadMember |-> "membership" ]
JRefAttrs == {"entity", "activity", "agent", "plan", "trigger", "starter", "ender", "informed",
              "informant", "generatedEntity", "usedEntity", "generation", "usage", "delegate",
              "responsible", "influencee", "influencer", "specificEntity", "generalEntity",
              "alternate1", "alternate2", "collection", "bundle"}
JTimeAttrs == {"time", "startTime", "endTime"}

Items(o) == o.items
Keys(o) == {o.items[i][1].raw : i \in 1..Len(o.items)}
Get(o, key) == LET hits == {i \in 1..Len(o.items) : o.items[i][1].raw = key} IN
               o.items[CHOOSE i \in hits : TRUE][2]
JHas(o, key) == \E i \in 1..Len(o.items) : o.items[i][1].raw = key

(* 2.2 namespaces: [pfx: prefix -> URI, dflt: URI or NONE] ; inner scope first *)
Predeclared == ("prov" :> ProvNS) @@ ("xsd" :> XsdNS)
ScopeOf(container) ==
  IF JHas(container, "prefix")
  THEN LET pb == Get(container, "prefix")
           named == {i \in 1..Len(pb.items) : pb.items[i][1].raw # "default"}
       IN [pfx |-> [p \in {pb.items[i][1].raw : i \in named} |->
                      (pb.items[CHOOSE i \in named : pb.items[i][1].raw = p][2]).uri],
           dflt |-> IF JHas(pb, "default") THEN Get(pb, "default").uri ELSE NONE]
  ELSE [pfx |-> <<>>, dflt |-> NONE]
(* URI of a lexically split name {p, l} in scope `inner' nested in `outer'; NONE if unbound *)
JNameUri(q, inner, outer) ==
  IF q.p = "" THEN (IF inner.dflt # NONE THEN inner.dflt \o q.l
                    ELSE IF outer.dflt # NONE THEN outer.dflt \o q.l ELSE NONE)
  ELSE IF q.p \in DOMAIN inner.pfx THEN inner.pfx[q.p] \o q.l
  ELSE IF q.p \in DOMAIN outer.pfx THEN outer.pfx[q.p] \o q.l
  ELSE IF q.p \in DOMAIN Predeclared THEN Predeclared[q.p] \o q.l
  ELSE NONE
JStrUri(s, inner, outer) == IF s.qn = <<>> THEN NONE ELSE JNameUri(s.qn[1], inner, outer)

XsdT(u) == IF Len(u) = 2 /\ u[1] = "xsd#" THEN u[2] ELSE ""
JIntTypes == {"int", "integer", "long", "short", "byte", "nonNegativeInteger", "unsignedLong",
              "unsignedInt", "unsignedShort", "unsignedByte", "positiveInteger",
              "nonPositiveInteger", "negativeInteger"}
Bad(why) == [t |-> "bad", v |-> why]

(* 2.5 one attribute value *)
ScalarVal(n) ==
  CASE n.j = "str"  -> [t |-> "str", v |-> n.v]
    [] n.j = "num"  -> IF n.isint THEN [t |-> "int", v |-> n.v] ELSE [t |-> "float", v |-> n.v]
    [] n.j = "bool" -> [t |-> "bool", v |-> n.v]
    [] OTHER -> Bad("scalar")
TypedVal(o, inner, outer) ==
  LET lexn == Get(o, "$") IN
  IF JHas(o, "lang") THEN [t |-> "lang", v |-> lexn.v, lang |-> Get(o, "lang").raw]
  ELSE IF ~JHas(o, "type") THEN Bad("untyped object")
  ELSE LET dt == JStrUri(Get(o, "type"), inner, outer)
           x  == XsdT(dt)
       IN IF dt = NONE THEN Bad("unbound datatype")
          ELSE IF x = "string" THEN [t |-> "str", v |-> lexn.v]
          ELSE IF x \in JIntTypes THEN
               (IF lexn.j = "num" THEN [t |-> "int", v |-> lexn.v] ELSE [t |-> "int", v |-> lexn.int])
          ELSE IF x \in {"double", "float", "decimal"} THEN
               (IF lexn.j = "num" THEN [t |-> "float", v |-> lexn.v] ELSE [t |-> "float", v |-> lexn.flt])
          ELSE IF x = "boolean" THEN
               (IF lexn.j = "bool" THEN [t |-> "bool", v |-> lexn.v]
                ELSE [t |-> "bool", v |-> lexn.bool])
          ELSE IF x = "dateTime" THEN [t |-> "dt", v |-> lexn.iso]
          ELSE IF x = "anyURI" THEN [t |-> "uri", u |-> lexn.uri]
          ELSE IF dt = <<"prov#", "QUALIFIED_NAME">> \/ x = "QName"
               THEN [t |-> "qn", u |-> JStrUri(lexn, inner, outer)]
          ELSE [t |-> "lit", v |-> lexn.v, dt |-> dt]
OneVal(n, inner, outer) == IF n.j = "obj" THEN TypedVal(n, inner, outer) ELSE ScalarVal(n)
ValSet(n, inner, outer) ==
  IF n.j = "arr" THEN {OneVal(n.items[i], inner, outer) : i \in 1..Len(n.items)}
  ELSE {OneVal(n, inner, outer)}

(* 2.4 the value of a PROV formal attribute *)
FormalVals(local, n, inner, outer) ==
  LET one(x) == IF x.j = "obj" THEN TypedVal(x, inner, outer)      \* the schema allows the typed form for any key
                ELSE IF x.j # "str" THEN ScalarVal(x)
                ELSE IF local \in JTimeAttrs THEN [t |-> "dt", v |-> x.iso]
                ELSE [t |-> "qn", u |-> JStrUri(x, inner, outer)]
  IN IF n.j = "arr" THEN {one(n.items[i]) : i \in 1..Len(n.items)} ELSE {one(n)}

(* one attribute object -> set of [a, v] *)
AttrsOf(body, inner, outer) ==
  UNION { LET key == body.items[i][1]
              au  == JStrUri(key, inner, outer)
              fl  == IF au # NONE /\ Len(au) = 2 /\ au[1] = "prov#" /\ au[2] \in JRefAttrs \cup JTimeAttrs
                     THEN au[2] ELSE ""
          IN {[a |-> au, v |-> v] :
                v \in IF fl # "" THEN FormalVals(fl, body.items[i][2], inner, outer)
                      ELSE ValSet(body.items[i][2], inner, outer)}
        : i \in 1..Len(body.items) }

IsBlank(s) == s.qn # <<>> /\ s.qn[1].p = "_"
(* 2.3 the records of one container, in document order *)
RECURSIVE RecsOfKinds(_, _, _, _)
Bodies(n) == IF n.j = "arr" THEN n.items ELSE <<n>>
RecsOfKind(kind, m, inner, outer) ==
  LET perId(i) == LET ids == m.items[i][1]
                      bs == Bodies(m.items[i][2])
                  IN [j \in 1..Len(bs) |->
                        [k |-> kind,
                         id |-> IF IsBlank(ids) THEN NONE ELSE JStrUri(ids, inner, outer),
                         attrs |-> AttrsOf(bs[j], inner, outer)]]
  IN FlattenSeq([i \in 1..Len(m.items) |-> perId(i)])
RecsOfKinds(container, i, inner, outer) ==
  IF i > Len(container.items) THEN <<>>
  ELSE LET key == container.items[i][1].raw IN
       (IF key \in DOMAIN JKind THEN RecsOfKind(JKind[key], container.items[i][2], inner, outer) ELSE <<>>)
       \o RecsOfKinds(container, i + 1, inner, outer)

(* 2.1 structural well-formedness of a container *)
WfContainer(c, top) ==
  /\ c.j = "obj"
  /\ \A i \in 1..Len(c.items) :
       LET key == c.items[i][1].raw IN
       \/ key = "prefix" /\ c.items[i][2].j = "obj"
       \/ top /\ key = "bundle" /\ c.items[i][2].j = "obj"
       \/ /\ key \in DOMAIN JKind
          /\ c.items[i][2].j = "obj"
          /\ \A r \in 1..Len(c.items[i][2].items) :
               LET b == c.items[i][2].items[r][2] IN
               \/ b.j = "obj"
               \/ b.j = "arr" /\ Len(b.items) >= 1 /\ \A x \in 1..Len(b.items) : b.items[x].j = "obj"
WfJSON(tree) ==
  /\ WfContainer(tree, TRUE)
  /\ JHas(tree, "bundle") => \A i \in 1..Len(Get(tree, "bundle").items) :
                               WfContainer(Get(tree, "bundle").items[i][2], FALSE)

SpecReadJSON(tree) ==
  LET top == ScopeOf(tree)
      none == [pfx |-> <<>>, dflt |-> NONE]
      bs  == IF JHas(tree, "bundle") THEN Get(tree, "bundle").items ELSE <<>>
  IN [recs |-> RecsOfKinds(tree, 1, top, none),
      bundles |-> [i \in 1..Len(bs) |->
                     LET sc == ScopeOf(bs[i][2]) IN
                     (* the key names the bundle through the bundle's own declarations, then the *)
                     (* document's (ProvToolbox practice, e.g. the corpus file bundle4.json)       *)
                     [id |-> JStrUri(bs[i][1], sc, top),
                      recs |-> RecsOfKinds(bs[i][2], 1, sc, top)]]]
=============================================================================
