---------------------------------- MODULE FS ----------------------------------
(***************************************************************************)
(* serialize(destination=path): the file-system protocol of                *)
(* ProvDocument.serialize for a path destination (model.py), one action    *)
(* per file-system step, with a failure possible at every step.            *)
(*                                                                         *)
(* fs.named : state of the named destination file                          *)
(*            "absent" | "old" | "partial" | "new"                         *)
(* fs.other : some other file of the destination directory was created or  *)
(*            changed (the path was mis-parsed)                            *)
(* fs.tmp   : the temporary file: "none" | "open" | "closed"               *)
(* fs.tmpSame : the temporary file lives in the destination directory      *)
(* fs.nw    : chunks written to the temporary file                         *)
(* fs.pc    : "start" | "writing" | "closed" | "copying" | "done" | "failed" *)
(* fs.ok    : FALSE once an observed event was not enabled (trace checking) *)
(*                                                                         *)
(* Implementation variants (what the code does, as constants of the step    *)
(* function so that the same module describes the repaired and the original *)
(* protocol):  V.tmpInDest  - mkstemp(dir=<destination directory>)          *)
(*             V.pathAsGiven - a plain path is used as given (not its URL   *)
(*                             path component)                              *)
(***************************************************************************)
EXTENDS Naturals, Sequences, TLC

Repaired == [tmpInDest |-> TRUE, pathAsGiven |-> TRUE]
Original == [tmpInDest |-> FALSE, pathAsGiven |-> FALSE]

UrlSyntaxNames == {"hash", "query", "semi", "colon"}   \* '#', '?', ';', ':' in the file name

FsInit(existing) ==
  [named |-> IF existing THEN "old" ELSE "absent", other |-> FALSE, tmp |-> "none",
   tmpSame |-> FALSE, nw |-> 0, pc |-> "start", ok |-> TRUE]

(* does the move target the named file?  (the original protocol moved to the URL *)
(* path component of the destination string)                                     *)
HitsNamed(V, nameClass) == V.pathAsGiven \/ nameClass \notin UrlSyntaxNames

Mkstemp(V, fs) == [fs EXCEPT !.tmp = "open", !.tmpSame = V.tmpInDest, !.pc = "writing"]
WriteTmp(fs)   == [fs EXCEPT !.nw = @ + 1]
CloseTmp(fs)   == [fs EXCEPT !.tmp = "closed", !.pc = "closed"]
(* same file system: rename is atomic *)
Rename(V, fs, nameClass) ==
  IF HitsNamed(V, nameClass) THEN [fs EXCEPT !.named = "new", !.tmp = "none", !.pc = "done"]
  ELSE [fs EXCEPT !.other = TRUE, !.tmp = "none", !.pc = "done"]
(* other file system: copy chunk by chunk, then unlink *)
CopyBegin(fs) == [fs EXCEPT !.pc = "copying"]
CopyOpen(V, fs, nameClass) ==
  IF HitsNamed(V, nameClass) THEN [fs EXCEPT !.named = "partial"] ELSE [fs EXCEPT !.other = TRUE]
CopyClose(V, fs, nameClass) ==
  IF HitsNamed(V, nameClass) THEN [fs EXCEPT !.named = "new"] ELSE fs
Unlink(fs) == [fs EXCEPT !.tmp = "none", !.pc = "done"]
Fail(fs) == [fs EXCEPT !.pc = "failed"]

(* ---- the design as a next-state relation (used by MC_FS) ---- *)
(* crossFs only matters when the temporary file is not in the destination directory *)
FsNextStates(V, fs, nameClass, crossFs, nchunks) ==
  LET copyPath == crossFs /\ ~fs.tmpSame IN
  CASE fs.pc = "start"   -> {Mkstemp(V, fs), Fail(fs)}
    [] fs.pc = "writing" -> (IF fs.nw < nchunks THEN {WriteTmp(fs)} ELSE {CloseTmp(fs)}) \cup {Fail(fs)}
    [] fs.pc = "closed"  -> (IF copyPath THEN {CopyBegin(fs)} ELSE {Rename(V, fs, nameClass)}) \cup {Fail(fs)}
    [] fs.pc = "copying" ->
         (IF fs.named # "partial" /\ ~(fs.other /\ ~HitsNamed(V, nameClass))
          THEN {CopyOpen(V, fs, nameClass)}
          ELSE {CopyClose(V, fs, nameClass), Fail(fs)})       \* a failing chunk leaves it partial
         \cup (IF fs.named = "new" THEN {Unlink(fs)} ELSE {})
    [] OTHER -> {}

(* ---- the properties on model states ---- *)
AtomicOK(fs) == fs.named # "partial"
ExactOK(fs)  == fs.pc = "done" => (fs.named = "new" /\ ~fs.other /\ fs.tmp = "none")
=============================================================================
