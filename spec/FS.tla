---------------------------------- MODULE FS ----------------------------------
(***************************************************************************)
(* serialize(destination=path): the file-system protocol of                *)
(* ProvDocument.serialize for a path destination (model.py), one action    *)
(* per file-system step, with a failure possible at every step.            *)
(*                                                                         *)
(* fs.named : state of the named destination file                          *)
(*            "absent" | "old" | "partial" | "new"                         *)
(* fs.other : some other file of the destination directory was created or  *)
(*            changed (the path was mis-parsed)                            *)
(* fs.tmp   : the temporary file: "none" | "open" | "closed"               *)
(* fs.tmpSame : the temporary file lives in the destination directory      *)
(* fs.nw    : chunks written to the temporary file                         *)
(* fs.pc    : "start" | "writing" | "closed" | "copying" | "done" | "failed" *)
(* fs.ok    : FALSE once an observed event was not enabled (trace checking) *)
(*                                                                         *)
(* Implementation variants (what the code does, as constants of the step    *)
(* function so that the same module describes the repaired and the original *)
(* protocol):  V.tmpInDest  - mkstemp(dir=<destination directory>)          *)
(*             V.pathAsGiven - a plain path is used as given (not its URL   *)
(*                             path component)                              *)
(***************************************************************************)
EXTENDS Naturals, Sequences, TLC

Repaired == [tmpInDest |-> TRUE, pathAsGiven |-> TRUE]
Original == [tmpInDest |-> FALSE, pathAsGiven |-> FALSE]

UrlSyntaxNames == {"hash", "query", "semi", "colon", "scheme"}   \* '#', '?', ';', ':' (also after a scheme word) in the file name

FsInit(existing) ==
  [named |-> IF existing THEN "old" ELSE "absent", other |-> FALSE, tmp |-> "none",
   tmpSame |-> FALSE, nw |-> 0, pc |-> "start", ok |-> TRUE]

(* does the move target the named file?  (the original protocol moved to the URL *)
(* path component of the destination string)                                     *)
HitsNamed(V, nameClass) == V.pathAsGiven \/ nameClass \notin UrlSyntaxNames

Mkstemp(V, fs) == [fs EXCEPT !.tmp = "open", !.tmpSame = V.tmpInDest, !.pc = "writing"]
WriteTmp(fs)   == [fs EXCEPT !.nw = @ + 1]
CloseTmp(fs)   == [fs EXCEPT !.tmp = "closed", !.pc = "closed"]
(* same file system: rename is atomic *)
Rename(V, fs, nameClass) ==
  IF HitsNamed(V, nameClass) THEN [fs EXCEPT !.named = "new", !.tmp = "none", !.pc = "done"]
  ELSE [fs EXCEPT !.other = TRUE, !.tmp = "none", !.pc = "done"]
(* other file system: copy chunk by chunk, then unlink *)
CopyBegin(fs) == [fs EXCEPT !.pc = "copying"]
CopyOpen(V, fs, nameClass) ==
  IF HitsNamed(V, nameClass) THEN [fs EXCEPT !.named = "partial"] ELSE [fs EXCEPT !.other = TRUE]
CopyClose(V, fs, nameClass) ==
  IF HitsNamed(V, nameClass) THEN [fs EXCEPT !.named = "new"] ELSE fs
Unlink(fs) == [fs EXCEPT !.tmp = "none", !.pc = "done"]
Fail(fs) == [fs EXCEPT !.pc = "failed"]
(* after a failure the temporary file is closed and removed *)
CleanUp(fs) == [fs EXCEPT !.tmp = "none", !.pc = "cleaned"]

(* ---- the design as a next-state relation (used by MC_FS) ---- *)
(* crossFs only matters when the temporary file is not in the destination directory *)
FsNextStates(V, fs, nameClass, crossFs, nchunks) ==
  LET copyPath == crossFs /\ ~fs.tmpSame IN
  CASE fs.pc = "start"   -> {Mkstemp(V, fs), Fail(fs)}
    [] fs.pc = "writing" -> (IF fs.nw < nchunks THEN {WriteTmp(fs)} ELSE {CloseTmp(fs)}) \cup {Fail(fs)}
    [] fs.pc = "closed"  -> (IF copyPath THEN {CopyBegin(fs)} ELSE {Rename(V, fs, nameClass)}) \cup {Fail(fs)}
    [] fs.pc = "copying" ->
         (IF fs.named # "partial" /\ ~(fs.other /\ ~HitsNamed(V, nameClass))
          THEN {CopyOpen(V, fs, nameClass)}
          ELSE {CopyClose(V, fs, nameClass), Fail(fs)})       \* a failing chunk leaves it partial
         \cup (IF fs.named = "new" THEN {Unlink(fs)} ELSE {})
    [] OTHER -> {}

(* ---- trace checking: one observed event -> the action it must be ---- *)
(* e = [ev, role, failed, samedir, snap: [named, others, ntmp]]; the result has ok=FALSE *)
(* when the event is not an enabled step of the protocol or the snapshot disagrees        *)
FsEvent(V, fs, e, nameClass) ==
  LET bad == [fs EXCEPT !.ok = FALSE]
      n == CASE e.ev = "mkstemp" -> IF fs.pc = "start" /\ e.samedir = V.tmpInDest THEN Mkstemp(V, fs) ELSE bad
             [] e.ev = "write" /\ e.role = "tmp" ->
                  IF fs.pc = "writing" THEN (IF e.failed THEN Fail(WriteTmp(fs)) ELSE WriteTmp(fs)) ELSE bad
             \* closing flushes what is buffered: it may fail too (and still closes the file); in the
             \* clean-up after a failure it may fail AGAIN - the temporary file is removed all the same
             [] e.ev = "close" /\ e.role = "tmp" -> IF fs.pc = "writing"
                                                    THEN (IF e.failed THEN Fail([fs EXCEPT !.tmp = "closed"]) ELSE CloseTmp(fs))
                                                    ELSE IF fs.pc = "failed" THEN [fs EXCEPT !.tmp = "closed"]
                                                    ELSE bad
             [] e.ev = "move" -> IF fs.pc = "closed" THEN (IF e.failed THEN Fail(fs) ELSE Rename(V, fs, nameClass)) ELSE bad
             [] e.ev = "copy_begin" -> IF fs.pc = "closed" THEN CopyBegin(fs) ELSE bad
             [] e.ev = "open" -> IF fs.pc = "copying" THEN CopyOpen(V, fs, nameClass) ELSE bad
             [] e.ev = "write" /\ e.role # "tmp" ->
                  IF fs.pc = "copying" THEN (IF e.failed THEN Fail(fs) ELSE fs) ELSE bad
             [] e.ev = "close" /\ e.role # "tmp" ->
                  IF fs.pc = "copying" THEN (IF e.failed THEN Fail(fs) ELSE CopyClose(V, fs, nameClass))
                  ELSE IF fs.pc = "failed" THEN fs ELSE bad
             [] e.ev = "unlink" -> IF fs.pc = "copying" THEN Unlink(fs)
                                   ELSE IF fs.pc = "failed" THEN [fs EXCEPT !.tmp = "none"]   \* clean-up
                                   ELSE bad
             [] OTHER -> bad
  IN IF n.ok /\ n.named = e.snap.named /\ n.other = (e.snap.others # <<>>) THEN n ELSE [n EXCEPT !.ok = FALSE]
RECURSIVE FsRun(_, _, _, _, _)
FsRun(V, fs, events, i, nameClass) ==
  IF i > Len(events) \/ ~fs.ok THEN fs ELSE FsRun(V, FsEvent(V, fs, events[i], nameClass), events, i + 1, nameClass)

(* ---- the properties on model states ---- *)
AtomicOK(fs) == fs.named # "partial"
ExactOK(fs)  == /\ fs.pc = "done" => (fs.named = "new" /\ ~fs.other /\ fs.tmp = "none")
                /\ fs.pc = "cleaned" => (~fs.other /\ fs.tmp = "none")
=============================================================================
