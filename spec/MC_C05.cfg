SPECIFICATION Spec
VIEW View
CONSTANTS
  MaxFollow = 1
  UseKinds = {"generation", "activity", "membership"}
  Emit = FALSE
INVARIANT IndexOK
PROPERTY PropC05_single
PROPERTY PropC05_typed
PROPERTY PropC05_refuse
PROPERTY PropC05_idem
PROPERTY PropC05_accumulate
PROPERTY PropC05_new
CHECK_DEADLOCK FALSE
