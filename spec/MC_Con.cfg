SPECIFICATION Spec
VIEW View
CONSTANTS
  Scenario = "c18"
  MaxDepth = 2
  Emit = "no"
  WalkLen = 0
INVARIANT IndexOK
CHECK_DEADLOCK FALSE
