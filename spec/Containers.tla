------------------------------ MODULE Containers ------------------------------
(***************************************************************************)
(* prov.model.ProvBundle / ProvDocument (model.py 1247-2536): containers   *)
(* of records with their identifier index, as a functional core over the   *)
(* whole abstract state                                                    *)
(*   ms.mgr : manager id -> NamespaceManager state                         *)
(*   ms.con : handle -> [kind: "doc"|"bun", mgr, id: QN|NoQN,              *)
(*                       recs: Seq(record), idmap: URI -> Seq(index),      *)
(*                       doc: handle|"", bundles: Seq(handle)]             *)
(*   ms.handed : ghost (C03)                                               *)
(* Records are addressed as [c: handle, i: index in con[c].recs].          *)
(***************************************************************************)
EXTENDS Records

Ok(st, res)    == [st |-> st, res |-> res, exc |-> "none"]
Raise(st, exc) == [st |-> st, res |-> NoQN, exc |-> exc]

ConInit(kind, mgr, id, doc) ==
  [kind |-> kind, mgr |-> mgr, id |-> id, recs |-> <<>>, idmap |-> <<>>,
   doc |-> doc, bundles |-> <<>>]

RecAt(ms, r) == ms.con[r.c].recs[r.i]

(* a name given as a record object stands for that record's identifier *)
DerefName(ms, n) == IF n.rep = "rec" THEN NameOfQ(RecAt(ms, n.r).id) ELSE n
DerefVal(ms, iv) == IF iv.t = "name" THEN [iv EXCEPT !.n = DerefName(ms, @)] ELSE iv
DerefPairs(ms, pairs) == [i \in 1..Len(pairs) |-> <<DerefName(ms, pairs[i][1]), DerefVal(ms, pairs[i][2])>>]

ProvAttrName(l) == NameQN("prov", ProvNS, <<l>>)

(* _add_record: the single insertion point *)
Insert(c, rec) ==
  LET n == Len(c.recs) + 1 IN
  [c EXCEPT !.recs = Append(@, rec),
            !.idmap = IF rec.id.ok
                      THEN LET u == Uri(rec.id) IN
                           (u :> (IF u \in DOMAIN c.idmap THEN Append(c.idmap[u], n) ELSE <<n>>)) @@ @
                      ELSE @]

(* new_record(kind, identifier, attributes, other_attributes) on container h.  *)
(* idn: <<>> or <<name>>;  pairs: formal pairs then extra pairs, already Deref'd *)
NewRecordF(ms, h, k, idn, pairs) ==
  LET m  == ms.con[h].mgr
      ri == IF idn = <<>> THEN [q |-> NoQN, M |-> ms.mgr] ELSE ResolveName(ms.mgr, m, idn[1])
  IN IF k \in Elements /\ ~ri.q.ok
     THEN Raise([ms EXCEPT !.mgr = ri.M], "ProvException")
     ELSE LET r == AddAttrsF(ri.M, m, [k |-> k, id |-> ri.q, attrs |-> {}], pairs) IN
          IF r.exc # "none" THEN Raise([ms EXCEPT !.mgr = r.M], r.exc)
          ELSE Ok([ms EXCEPT !.mgr = r.M, !.con[h] = Insert(@, r.rec)],
                  [c |-> h, i |-> Len(ms.con[h].recs) + 1])

FormalPairs(fs) == [i \in 1..Len(fs) |-> <<ProvAttrName(fs[i][1]), fs[i][2]>>]

(* the typed convenience factories: revision / quotation / primary_source (a derivation) and       *)
(* collection (an entity) create the base record and then assert the PROV type on it              *)
SubFactoryType == [revision |-> "Revision", quotation |-> "Quotation", primary_source |-> "PrimarySource",
                   collection |-> "Collection"]
DoNewRec(ms, a) ==
  LET r == NewRecordF(ms, a.h, a.k, IF a.id = <<>> THEN <<>> ELSE <<DerefName(ms, a.id[1])>>,
                      DerefPairs(ms, FormalPairs(a.formals) \o a.extras))
  IN IF a.via \notin DOMAIN SubFactoryType \/ r.exc # "none" THEN r
     ELSE LET n == Len(r.st.con[a.h].recs) IN
          [r EXCEPT !.st.con[a.h].recs[n].attrs =
                       AddPair(@, ProvQ("type"), [t |-> "qn", q |-> QN("prov", ProvNS, <<SubFactoryType[a.via]>>)])]

DoAddAttrs(ms, a) ==
  LET c == ms.con[a.r.c]
      r == AddAttrsF(ms.mgr, c.mgr, RecAt(ms, a.r), DerefPairs(ms, a.pairs))
  IN [st |-> [ms EXCEPT !.mgr = r.M, !.con[a.r.c].recs[a.r.i] = r.rec], res |-> NoQN, exc |-> r.exc]

(* ProvActivity.set_time: assigns {_ensure_datetime(value)} directly, no guard *)
StoreRaw(iv) == IF iv.t = "iso" THEN [t |-> "dt", v |-> iv.v] ELSE iv
SetAttr(rec, q, v) == [rec EXCEPT !.attrs = {x \in @ : Uri(x.a) # Uri(q)} \cup {[a |-> q, v |-> v]}]
DoSetTime(ms, a) ==
  LET r0 == RecAt(ms, a.r)
      r1 == IF a.start = <<>> THEN r0 ELSE SetAttr(r0, ProvQ("startTime"), StoreRaw(a.start[1]))
      r2 == IF a.end = <<>> THEN r1 ELSE SetAttr(r1, ProvQ("endTime"), StoreRaw(a.end[1]))
  IN Ok([ms EXCEPT !.con[a.r.c].recs[a.r.i] = r2], NoQN)

(* add_asserted_type: adds to prov:type without any conversion *)
DoAddType(ms, a) ==
  LET v == IF a.v.t = "name" THEN [t |-> "qn", q |-> QN(a.v.n.p, a.v.n.ns, a.v.n.l)] ELSE a.v
  IN Ok([ms EXCEPT !.con[a.r.c].recs[a.r.i].attrs = AddPair(@, ProvQ("type"), v)], NoQN)

(* add_record(record): re-creates the record in h from its formal and extra attributes. *)
(* formal_attributes yields first(values) per formal name, so further values of a       *)
(* formal (membership hack) are dropped.                                                 *)
ValAsInput(v) == IF v.t = "qn" THEN [t |-> "name", n |-> NameOfQ(v.q)] ELSE v
AddRecordPairs(rec) ==
  LET fs == Formals[rec.k]
      fp == [i \in 1..Len(fs) |-> <<ProvAttrName(fs[i]), FormalValue(rec, fs[i])>>]
      fpresent == SelectSeq(fp, LAMBDA p : p[2] # NONE)
      fpairs == [i \in 1..Len(fpresent) |-> <<fpresent[i][1], ValAsInput(fpresent[i][2][1])>>]
      extra == {x \in rec.attrs : ~(\E i \in 1..Len(fs) : Uri(x.a) = <<"prov#", fs[i]>>)}
      eseq == SetToSeq(extra)
      epairs == [i \in 1..Len(eseq) |-> <<NameOfQ(eseq[i].a), ValAsInput(eseq[i].v)>>]
  IN fpairs \o epairs

AddRecordF(ms, h, rec) ==
  NewRecordF(ms, h, rec.k, IF rec.id.ok THEN <<NameOfQ(rec.id)>> ELSE <<>>, AddRecordPairs(rec))

DoAddRecord(ms, a) == AddRecordF(ms, a.h, RecAt(ms, a.r))

(* ---------------------------------------------------------------------- *)
(* Adding a sequence of records to container h by re-creation (add_record   *)
(* each); stops at the first exception.                                     *)
RECURSIVE AddAllFrom(_, _, _, _)
AddAllFrom(ms, h, recs, i) ==
  IF i > Len(recs) THEN Ok(ms, NoQN)
  ELSE LET r == AddRecordF(ms, h, recs[i]) IN
       IF r.exc # "none" THEN r ELSE AddAllFrom(r.st, h, recs, i + 1)
AddAll(ms, h, recs) == AddAllFrom(ms, h, recs, 1)

HasBundles(c) == c.kind = "doc" /\ c.bundles # <<>>
BundleIdx(ms, h, u) == {i \in 1..Len(ms.con[h].bundles) :
                          LET b == ms.con[ms.con[h].bundles[i]] IN b.id.ok /\ Uri(b.id) = u}

(* ProvDocument.bundle(identifier) -> new empty bundle `out' of document h *)
BundleF(ms, h, idn, out) ==
  LET m  == ms.con[h].mgr
      ri == ResolveName(ms.mgr, m, idn)
      s1 == [ms EXCEPT !.mgr = ri.M]
  IN IF ~ri.q.ok THEN Raise(s1, "ProvException")
     ELSE IF BundleIdx(ms, h, Uri(ri.q)) # {} THEN Raise(s1, "ProvException")
     ELSE Ok([s1 EXCEPT !.mgr = (out :> MgrInit(m)) @@ @,
                        !.con = (out :> ConInit("bun", out, ri.q, h)) @@
                                [@ EXCEPT ![h].bundles = Append(@, out)]], NoQN)
DoBundle(ms, a) == BundleF(ms, a.h, DerefName(ms, a.id), a.out)

(* ProvBundle(identifier=qn) / ProvDocument(): fresh, unattached containers *)
DoNewBundle(ms, a) ==
  Ok([ms EXCEPT !.mgr = (a.out :> MgrInit("")) @@ @,
                !.con = (a.out :> ConInit("bun", a.out, QN(a.id.p, a.id.ns, a.id.l), "")) @@ @], NoQN)
DoNewDoc(ms, a) ==
  Ok([ms EXCEPT !.mgr = (a.out :> MgrInit("")) @@ @,
                !.con = (a.out :> ConInit("doc", a.out, NoQN, "")) @@ @], NoQN)

(* ProvBundle.update(other) / ProvDocument.update(other) *)
RECURSIVE UpdBundlesFrom(_, _, _, _)
UpdateF(ms, h, o) ==
  LET c == ms.con[h]
      oc == ms.con[o]
  IN IF c.kind = "bun" THEN
        IF HasBundles(oc) THEN Raise(ms, "ProvException") ELSE AddAll(ms, h, oc.recs)
     ELSE LET r == AddAll(ms, h, oc.recs) IN
          IF r.exc # "none" \/ ~HasBundles(oc) THEN r
          ELSE UpdBundlesFrom(r.st, h, oc.bundles, 1)
(* bundles of `other': merged into the same-named bundle of h or re-created under it. *)
(* New bundle handles are named after the source bundle handle: "<h>+<b>".            *)
UpdBundlesFrom(ms, h, bs, i) ==
  IF i > Len(bs) THEN Ok(ms, NoQN)
  ELSE LET b   == ms.con[bs[i]]
           hit == BundleIdx(ms, h, Uri(b.id))
           r   == IF hit # {}
                  THEN AddAll(ms, ms.con[h].bundles[CHOOSE k \in hit : TRUE], b.recs)
                  ELSE LET nb == h \o "+" \o bs[i]
                           r1 == BundleF(ms, h, NameOfQ(b.id), nb)
                       IN IF r1.exc # "none" THEN r1 ELSE AddAll(r1.st, nb, b.recs)
       IN IF r.exc # "none" THEN r ELSE UpdBundlesFrom(r.st, h, bs, i + 1)
DoUpdate(ms, a) == UpdateF(ms, a.h, a.other)

(* ProvDocument.add_bundle(bundle, identifier).  A document argument is first     *)
(* converted into a new bundle `out' carrying its registered namespaces (not its  *)
(* default namespace); a bundle argument is attached as it is.  The parent link   *)
(* and the identifier of the (new) bundle are rewritten before the duplicate      *)
(* check.                                                                         *)
RECURSIVE AddNsAll(_, _, _)
AddNsAll(st, reg, i) == IF i > Len(reg) THEN st ELSE AddNsAll(AddNsF(st, <<>>, reg[i][1], reg[i][2]).st, reg, i + 1)
AddBundleF(ms, h, arg, idn, out) ==
  LET ac == ms.con[arg]
      (* a refused document argument leaves nothing behind: the converted bundle is dropped *)
      Refuse(st) == IF ac.kind = "doc" THEN Raise(ms, "ProvException") ELSE Raise(st, "ProvException")
  IN
  IF ac.kind = "doc" /\ HasBundles(ac) THEN Raise(ms, "ProvException")
  ELSE
  LET conv == IF ac.kind = "doc"
              THEN LET s0 == [ms EXCEPT !.mgr = (out :> AddNsAll(MgrInit(""), ms.mgr[ac.mgr].reg, 1)) @@ @,
                                        !.con = (out :> ConInit("bun", out, NoQN, "")) @@ @]
                   IN AddAll(s0, out, ac.recs)
              ELSE Ok(ms, NoQN)
      b == IF ac.kind = "doc" THEN out ELSE arg
  IN IF conv.exc # "none" THEN Raise(ms, conv.exc)
     ELSE
     LET s1  == conv.st
         bid == IF idn # <<>> THEN idn[1]
                ELSE IF s1.con[b].id.ok THEN NameOfQ(s1.con[b].id) ELSE [rep |-> "none"]
     IN IF bid.rep = "none" THEN Refuse(s1)
        ELSE
        LET bm == s1.con[b].mgr
            s2 == [s1 EXCEPT !.mgr[bm].parent = s1.con[h].mgr]
            ri == ResolveName(s2.mgr, bm, bid)
            s3 == [s2 EXCEPT !.mgr = ri.M, !.con[b].id = ri.q]
        IN IF ~ri.q.ok THEN Refuse([s2 EXCEPT !.mgr = ri.M])       \* unresolvable identifier
           ELSE IF BundleIdx(s3, h, Uri(ri.q)) # {} THEN Refuse(s3)
           ELSE Ok([s3 EXCEPT !.con[h].bundles = Append(@, b), !.con[b].doc = h], NoQN)
DoAddBundle(ms, a) ==
  AddBundleF(ms, a.h, a.arg, IF a.id = <<>> THEN <<>> ELSE <<DerefName(ms, a.id[1])>>, a.out)

(* ProvDocument.flattened(): a document with bundles -> new document `out' with all *)
(* records re-created in it; a bundle-free document returns itself (no `out').      *)
RECURSIVE ConcatRecs(_, _, _)
ConcatRecs(ms, bs, i) == IF i > Len(bs) THEN <<>> ELSE ms.con[bs[i]].recs \o ConcatRecs(ms, bs, i + 1)
FlattenedF(ms, h, out) ==
  IF ~HasBundles(ms.con[h]) THEN [st |-> ms, res |-> NoQN, exc |-> "none"]
  ELSE LET s0 == [ms EXCEPT !.mgr = (out :> MgrInit("")) @@ @,
                            !.con = (out :> ConInit("doc", out, NoQN, "")) @@ @]
       IN AddAll(s0, out, ms.con[h].recs \o ConcatRecs(ms, ms.con[h].bundles, 1))
DoFlattened(ms, a) == FlattenedF(ms, a.h, a.out)

(* ProvDocument(records=...) from the records of container h *)
DoDocFromRecs(ms, a) ==
  LET s0 == [ms EXCEPT !.mgr = (a.out :> MgrInit("")) @@ @,
                       !.con = (a.out :> ConInit("doc", a.out, NoQN, "")) @@ @]
  IN AddAll(s0, a.out, ms.con[a.h].recs)

(* _unified_records: records sharing an identifier and a kind are merged into a      *)
(* copy of the first, by add_attributes of the others, in the source's manager.     *)
AttrPairs(rec) == LET sq == SetToSeq(rec.attrs) IN
                  [i \in 1..Len(sq) |-> <<NameOfQ(sq[i].a), ValAsInput(sq[i].v)>>]
RECURSIVE MergeFrom(_, _, _, _, _)
MergeFrom(M, m, merged, others, i) ==
  IF i > Len(others) THEN [rec |-> merged, M |-> M, exc |-> "none"]
  ELSE LET r == AddAttrsF(M, m, merged, AttrPairs(others[i])) IN
       IF r.exc # "none" THEN r ELSE MergeFrom(r.M, m, r.rec, others, i + 1)
(* result: [recs, M, exc].  A group is the records of one identifier AND one kind    *)
(* (two or more); groups are processed in idmap (dict) order, which only matters    *)
(* for which conflict is reported first.                                            *)
GroupIdx(c, g) == SelectSeq(c.idmap[g[1]], LAMBDA i : c.recs[i].k = g[2])
RECURSIVE UnifyGroups(_, _, _, _, _)
UnifyGroups(M, c, gs, i, acc) ==
  IF i > Len(gs) THEN [merged |-> acc, M |-> M, exc |-> "none"]
  ELSE LET idx == GroupIdx(c, gs[i])
           first == c.recs[idx[1]]
           copy == AddAttrsF(M, c.mgr, [first EXCEPT !.attrs = {}], AttrPairs(first))
       IN IF copy.exc # "none" THEN [merged |-> acc, M |-> copy.M, exc |-> copy.exc]
          ELSE LET r == MergeFrom(copy.M, c.mgr, copy.rec,
                                  [j \in 1..(Len(idx) - 1) |-> c.recs[idx[j + 1]]], 1)
               IN IF r.exc # "none" THEN [merged |-> acc, M |-> r.M, exc |-> r.exc]
                  ELSE UnifyGroups(r.M, c, gs, i + 1, (gs[i] :> r.rec) @@ acc)
UnifiedRecordsF(M, c) ==
  LET groups == {g \in {<<Uri(c.recs[i].id), c.recs[i].k>> : i \in {j \in 1..Len(c.recs) : c.recs[j].id.ok}} :
                   Len(GroupIdx(c, g)) > 1}
      g == UnifyGroups(M, c, SetToSeq(groups), 1, <<>>)
      key(r) == <<Uri(r.id), r.k>>
  IN
  IF g.exc # "none" THEN [recs |-> <<>>, M |-> g.M, exc |-> g.exc]
  ELSE LET keep(i) == LET r == c.recs[i] IN
                      ~r.id.ok \/ key(r) \notin DOMAIN g.merged \/ GroupIdx(c, key(r))[1] = i
           idxs == SelectSeq([i \in 1..Len(c.recs) |-> i], keep)
       IN [recs |-> [j \in 1..Len(idxs) |->
                       LET r == c.recs[idxs[j]] IN
                       IF r.id.ok /\ key(r) \in DOMAIN g.merged THEN g.merged[key(r)] ELSE r],
           M |-> g.M, exc |-> "none"]

(* ProvBundle.unified(): new parentless bundle `out' with the unified records *)
UnifiedBundleF(ms, h, out) ==
  LET u == UnifiedRecordsF(ms.mgr, ms.con[h]) IN
  IF u.exc # "none" THEN Raise([ms EXCEPT !.mgr = u.M], u.exc)
  ELSE LET s0 == [ms EXCEPT !.mgr = (out :> MgrInit("")) @@ u.M,
                            !.con = (out :> ConInit("bun", out, ms.con[h].id, "")) @@ @]
       IN AddAll(s0, out, u.recs)
(* ProvDocument.unified(): a new document with the source's registered namespaces,  *)
(* the unified records re-created in it, then the source's default namespace; each  *)
(* bundle is unified and attached with add_bundle.  Bundle handles: "<out>+<b>".    *)
RECURSIVE UnifyBundlesFrom(_, _, _, _)
UnifyBundlesFrom(ms, out, bs, i) ==
  IF i > Len(bs) THEN Ok(ms, NoQN)
  ELSE LET nb == out \o "+" \o bs[i]
           r1 == UnifiedBundleF(ms, bs[i], nb)
       IN IF r1.exc # "none" THEN r1
          ELSE LET r2 == AddBundleF(r1.st, out, nb, <<>>, "")
               IN IF r2.exc # "none" THEN r2 ELSE UnifyBundlesFrom(r2.st, out, bs, i + 1)
UnifiedDocF(ms, h, out) ==
  LET u == UnifiedRecordsF(ms.mgr, ms.con[h]) IN
  IF u.exc # "none" THEN Raise([ms EXCEPT !.mgr = u.M], u.exc)
  ELSE LET src == u.M[ms.con[h].mgr]
           s0 == [ms EXCEPT !.mgr = (out :> AddNsAll(MgrInit(""), src.reg, 1)) @@ u.M,
                            !.con = (out :> ConInit("doc", out, NoQN, "")) @@ @]
           r  == AddAll(s0, out, u.recs)
       IN IF r.exc # "none" THEN r
          ELSE LET s1 == IF src.dflt = NONE THEN r.st
                         ELSE [r.st EXCEPT !.mgr[out] = SetDefaultF(@, src.dflt)]
               IN UnifyBundlesFrom(s1, out, ms.con[h].bundles, 1)
DoUnified(ms, a) ==
  IF ms.con[a.h].kind = "doc" THEN UnifiedDocF(ms, a.h, a.out) ELSE UnifiedBundleF(ms, a.h, a.out)

(* record.copy(): a new record object of the same bundle that is NOT inserted in it. *)
(* It is modelled as the only record of a pseudo container `out' of kind "loose"     *)
(* that uses the bundle's manager.                                                   *)
DoCopyRec(ms, a) ==
  LET rec == RecAt(ms, a.r)
      m   == ms.con[a.r.c].mgr
      r   == AddAttrsF(ms.mgr, m, [rec EXCEPT !.attrs = {}], AttrPairs(rec))
  IN IF r.exc # "none" THEN Raise([ms EXCEPT !.mgr = r.M], r.exc)
     ELSE Ok([ms EXCEPT !.mgr = r.M,
                        !.con = (a.out :> [ConInit("loose", m, NoQN, a.r.c) EXCEPT !.recs = <<r.rec>>]) @@ @],
             NoQN)

(* get_record(identifier): resolves the identifier (a QualifiedName argument may *)
(* register a namespace) and returns the indexed records, as indices             *)
DoGetRecord(ms, a) ==
  LET c  == ms.con[a.h]
      ri == ResolveName(ms.mgr, c.mgr, DerefName(ms, a.id))
  IN [st |-> [ms EXCEPT !.mgr = ri.M],
      res |-> IF ri.q.ok /\ Uri(ri.q) \in DOMAIN c.idmap THEN c.idmap[Uri(ri.q)] ELSE <<>>,
      exc |-> "none"]

(* index coherence: idmap is exactly the scan of recs (C18, checked in every model) *)
ScanIndex(c, u) == SelectSeq([i \in 1..Len(c.recs) |-> i],
                             LAMBDA i : c.recs[i].id.ok /\ Uri(c.recs[i].id) = u)
IndexCoherent(c) ==
  /\ \A u \in DOMAIN c.idmap : c.idmap[u] = ScanIndex(c, u)
  /\ \A i \in 1..Len(c.recs) : c.recs[i].id.ok => Uri(c.recs[i].id) \in DOMAIN c.idmap

=============================================================================
