------------------------------ MODULE Containers ------------------------------
(***************************************************************************)
(* prov.model.ProvBundle / ProvDocument (model.py 1247-2536): containers   *)
(* of records with their identifier index, as a functional core over the   *)
(* whole abstract state                                                    *)
(*   ms.mgr : manager id -> NamespaceManager state                         *)
(*   ms.con : handle -> [kind: "doc"|"bun", mgr, id: QN|NoQN,              *)
(*                       recs: Seq(record), idmap: URI -> Seq(index),      *)
(*                       doc: handle|"", bundles: Seq(handle)]             *)
(*   ms.handed : ghost (C03)                                               *)
(* Records are addressed as [c: handle, i: index in con[c].recs].          *)
(***************************************************************************)
EXTENDS Records

Ok(st, res)    == [st |-> st, res |-> res, exc |-> "none"]
Raise(st, exc) == [st |-> st, res |-> NoQN, exc |-> exc]

ConInit(kind, mgr, id, doc) ==
  [kind |-> kind, mgr |-> mgr, id |-> id, recs |-> <<>>, idmap |-> <<>>,
   doc |-> doc, bundles |-> <<>>]

RecAt(ms, r) == ms.con[r.c].recs[r.i]

(* a name given as a record object stands for that record's identifier *)
DerefName(ms, n) == IF n.rep = "rec" THEN NameOfQ(RecAt(ms, n.r).id) ELSE n
DerefVal(ms, iv) == IF iv.t = "name" THEN [iv EXCEPT !.n = DerefName(ms, @)] ELSE iv
DerefPairs(ms, pairs) == [i \in 1..Len(pairs) |-> <<DerefName(ms, pairs[i][1]), DerefVal(ms, pairs[i][2])>>]

ProvAttrName(l) == NameQN("prov", ProvNS, <<l>>)

(* _add_record: the single insertion point *)
Insert(c, rec) ==
  LET n == Len(c.recs) + 1 IN
  [c EXCEPT !.recs = Append(@, rec),
            !.idmap = IF rec.id.ok
                      THEN LET u == Uri(rec.id) IN
                           (u :> (IF u \in DOMAIN c.idmap THEN Append(c.idmap[u], n) ELSE <<n>>)) @@ @
                      ELSE @]

(* new_record(kind, identifier, attributes, other_attributes) on container h.  *)
(* idn: <<>> or <<name>>;  pairs: formal pairs then extra pairs, already Deref'd *)
NewRecordF(ms, h, k, idn, pairs) ==
  LET m  == ms.con[h].mgr
      ri == IF idn = <<>> THEN [q |-> NoQN, M |-> ms.mgr] ELSE ResolveName(ms.mgr, m, idn[1])
  IN IF k \in Elements /\ ~ri.q.ok
     THEN Raise([ms EXCEPT !.mgr = ri.M], "ProvException")
     ELSE LET r == AddAttrsF(ri.M, m, [k |-> k, id |-> ri.q, attrs |-> {}], pairs) IN
          IF r.exc # "none" THEN Raise([ms EXCEPT !.mgr = r.M], r.exc)
          ELSE Ok([ms EXCEPT !.mgr = r.M, !.con[h] = Insert(@, r.rec)],
                  [c |-> h, i |-> Len(ms.con[h].recs) + 1])

FormalPairs(fs) == [i \in 1..Len(fs) |-> <<ProvAttrName(fs[i][1]), fs[i][2]>>]

DoNewRec(ms, a) ==
  NewRecordF(ms, a.h, a.k, IF a.id = <<>> THEN <<>> ELSE <<DerefName(ms, a.id[1])>>,
             DerefPairs(ms, FormalPairs(a.formals) \o a.extras))

DoAddAttrs(ms, a) ==
  LET c == ms.con[a.r.c]
      r == AddAttrsF(ms.mgr, c.mgr, RecAt(ms, a.r), DerefPairs(ms, a.pairs))
  IN [st |-> [ms EXCEPT !.mgr = r.M, !.con[a.r.c].recs[a.r.i] = r.rec], res |-> NoQN, exc |-> r.exc]

(* ProvActivity.set_time: assigns {_ensure_datetime(value)} directly, no guard *)
StoreRaw(iv) == IF iv.t = "iso" THEN [t |-> "dt", v |-> iv.v] ELSE iv
SetAttr(rec, q, v) == [rec EXCEPT !.attrs = {x \in @ : Uri(x.a) # Uri(q)} \cup {[a |-> q, v |-> v]}]
DoSetTime(ms, a) ==
  LET r0 == RecAt(ms, a.r)
      r1 == IF a.start = <<>> THEN r0 ELSE SetAttr(r0, ProvQ("startTime"), StoreRaw(a.start[1]))
      r2 == IF a.end = <<>> THEN r1 ELSE SetAttr(r1, ProvQ("endTime"), StoreRaw(a.end[1]))
  IN Ok([ms EXCEPT !.con[a.r.c].recs[a.r.i] = r2], NoQN)

(* add_asserted_type: adds to prov:type without any conversion *)
DoAddType(ms, a) ==
  LET v == IF a.v.t = "name" THEN [t |-> "qn", q |-> QN(a.v.n.p, a.v.n.ns, a.v.n.l)] ELSE a.v
  IN Ok([ms EXCEPT !.con[a.r.c].recs[a.r.i].attrs = AddPair(@, ProvQ("type"), v)], NoQN)

(* add_record(record): re-creates the record in h from its formal and extra attributes. *)
(* formal_attributes yields first(values) per formal name, so further values of a       *)
(* formal (membership hack) are dropped.                                                 *)
ValAsInput(v) == IF v.t = "qn" THEN [t |-> "name", n |-> NameOfQ(v.q)] ELSE v
AddRecordPairs(rec) ==
  LET fs == Formals[rec.k]
      fp == [i \in 1..Len(fs) |-> <<ProvAttrName(fs[i]), FormalValue(rec, fs[i])>>]
      fpresent == SelectSeq(fp, LAMBDA p : p[2] # NONE)
      fpairs == [i \in 1..Len(fpresent) |-> <<fpresent[i][1], ValAsInput(fpresent[i][2][1])>>]
      extra == {x \in rec.attrs : ~(\E i \in 1..Len(fs) : Uri(x.a) = <<"prov#", fs[i]>>)}
      eseq == SetToSeq(extra)
      epairs == [i \in 1..Len(eseq) |-> <<NameOfQ(eseq[i].a), ValAsInput(eseq[i].v)>>]
  IN fpairs \o epairs

AddRecordF(ms, h, rec) ==
  NewRecordF(ms, h, rec.k, IF rec.id.ok THEN <<NameOfQ(rec.id)>> ELSE <<>>, AddRecordPairs(rec))

DoAddRecord(ms, a) == AddRecordF(ms, a.h, RecAt(ms, a.r))

(* index coherence: idmap is exactly the scan of recs (C18, checked in every model) *)
ScanIndex(c, u) == SelectSeq([i \in 1..Len(c.recs) |-> i],
                             LAMBDA i : c.recs[i].id.ok /\ Uri(c.recs[i].id) = u)
IndexCoherent(c) ==
  /\ \A u \in DOMAIN c.idmap : c.idmap[u] = ScanIndex(c, u)
  /\ \A i \in 1..Len(c.recs) : c.recs[i].id.ok => Uri(c.recs[i].id) \in DOMAIN c.idmap

=============================================================================
