---------------------------------- MODULE IO ----------------------------------
(***************************************************************************)
(* Source / destination dispatch of ProvDocument.serialize / deserialize   *)
(* and the format detection loop of prov.read (model.py, __init__.py,      *)
(* serializers), as a small machine over a stream position.                *)
(*                                                                         *)
(* A source is [kind, fmt: the format its text is really in, pos: "start"  *)
(* | "end"].  Streams are consumed by a parse attempt and are NOT rewound  *)
(* by the library; content strings/bytes and paths are re-opened for every *)
(* attempt.  prov.read(source) with Buffered = TRUE first reads a stream   *)
(* source into memory and hands every attempt the complete content (the    *)
(* repaired behaviour); with FALSE every attempt gets the same stream      *)
(* object (the original behaviour).                                        *)
(***************************************************************************)
EXTENDS Naturals, Sequences, TLC

Formats == <<"json", "rdf", "provn", "xml">>        \* registry order = trial order
Readable == {"json", "xml", "rdf"}
DestKinds == {"string", "text", "binary", "path"}
SrcKinds == {"content_str", "content_bytes", "text", "binary", "path",
             "pathurl",       \* a local file name containing '#' and ';' (URL syntax)
             "bintext", "bincontent",   \* the bytes a binary destination received, as text stream / as content
             "ntf",           \* tempfile.NamedTemporaryFile: a binary file object that is not an io.IOBase
             "textfile"}      \* a file-backed text stream in UTF-16 the library itself wrote through that stream
StreamKinds == {"text", "binary"}

(* what a parser of format `try' makes of text in format `fmt' seen from position pos: *)
(* "doc" the document, "empty" an empty document, "error" an exception                  *)
Parse(try, fmt, pos) ==
  IF try = "provn" THEN "error"                       \* NotImplementedError
  ELSE IF pos = "end" THEN (IF try = "rdf" THEN "empty" ELSE "error")   \* TriG accepts ""
  ELSE IF try = fmt THEN "doc" ELSE "error"

(* ProvDocument.deserialize(source|content, format): one attempt; streams are consumed *)
Attempt(src, try) ==
  [res |-> Parse(try, src.fmt, src.pos),
   src |-> IF src.kind \in StreamKinds THEN [src EXCEPT !.pos = "end"] ELSE src]

(* prov.read(source, format=None): first attempt that does not raise *)
RECURSIVE ReadFrom(_, _, _)
ReadFrom(Buffered, src, i) ==
  IF i > Len(Formats) THEN "error"                    \* TypeError: could not read
  ELSE LET a == Attempt(IF Buffered THEN [src EXCEPT !.pos = "start"] ELSE src, Formats[i]) IN
       IF a.res # "error" THEN a.res ELSE ReadFrom(Buffered, a.src, i + 1)
ReadDetect(Buffered, kind, fmt) == ReadFrom(Buffered, [kind |-> kind, fmt |-> fmt, pos |-> "start"], 1)
ReadExplicit(kind, fmt) == Attempt([kind |-> kind, fmt |-> fmt, pos |-> "start"], fmt).res

(* C16 on the model: every source kind and both ways of calling read give the document *)
ReadOK(Buffered) ==
  \A fmt \in Readable : \A k \in {"text", "binary", "path"} :
     ReadDetect(Buffered, k, fmt) = "doc" /\ ReadExplicit(k, fmt) = "doc"
=============================================================================
