------------------------------- MODULE SpecXml -------------------------------
(***************************************************************************)
(* An independent reader of PROV-XML, written from the W3C PROV-XML note   *)
(* and prov-core.xsd, NOT from the library.  Input: the element tree of    *)
(* harness/lex_xml.py (stdlib expat).  Output: the shape of the strict     *)
(* projection [recs, bundles] as in SpecJson.                              *)
(*                                                                         *)
(*  3.  root prov:document; bundles as prov:bundleContent prov:id=QName    *)
(*  3.x record elements named after the PROV-N expression, plus the        *)
(*      subtype elements (prov:person, prov:plan, prov:wasRevisionOf ...)  *)
(*      that stand for the base record with the corresponding prov:type    *)
(*  2.  prov:id (xsd:QName) on records; reference children carry prov:ref  *)
(*      (xsd:QName); QNames resolve through the in-scope XML namespace     *)
(*      bindings; an unprefixed QName through the default namespace        *)
(*      values: element text with optional xsi:type (a QName naming the    *)
(*      datatype; xsd:QName = the text is a qualified name) and xml:lang;  *)
(*      untyped text is a string, except in the three time elements        *)
(*  xsd: child order is the xs:sequence of the schema: formal children in  *)
(*      PROV-DM order, then label, location, role, type, value, then       *)
(*      elements of other namespaces                                       *)
(***************************************************************************)
EXTENDS SpecJson

XKind == [ entity |-> "entity", activity |-> "activity", agent |-> "agent",
           wasGeneratedBy |-> "generation", used |-> "usage", wasInformedBy |-> "communication",
           wasStartedBy |-> "start", wasEndedBy |-> "end", wasInvalidatedBy |-> "invalidation",
           wasDerivedFrom |-> "derivation", wasAttributedTo |-> "attribution",
           wasAssociatedWith |-> "association", actedOnBehalfOf |-> "delegation",
           wasInfluencedBy |-> "influence", specializationOf |-> "specialization",
           alternateOf |-> "alternate", mentionOf |-> "mention", hadMember |-> "membership",
           (* subtype elements: base kind *)
           person |-> "agent", organization |-> "agent", softwareAgent |-> "agent",
           plan |-> "entity", collection |-> "entity", emptyCollection |-> "entity", bundle |-> "entity",
           wasRevisionOf |-> "derivation", wasQuotedFrom |-> "derivation",
           hadPrimarySource |-> "derivation" ]
XSubtype == [ person |-> "Person", organization |-> "Organization", softwareAgent |-> "SoftwareAgent",
              plan |-> "Plan", collection |-> "Collection", emptyCollection |-> "EmptyCollection",
              bundle |-> "Bundle", wasRevisionOf |-> "Revision", wasQuotedFrom |-> "Quotation",
              hadPrimarySource |-> "PrimarySource" ]
(* schema order of the formal children per kind (PROV-DM argument order) *)
XFormals ==
  [ entity |-> <<>>, agent |-> <<>>, activity |-> <<"startTime", "endTime">>,
    generation |-> <<"entity", "activity", "time">>, usage |-> <<"activity", "entity", "time">>,
    communication |-> <<"informed", "informant">>,
    start |-> <<"activity", "trigger", "starter", "time">>, end |-> <<"activity", "trigger", "ender", "time">>,
    invalidation |-> <<"entity", "activity", "time">>,
    derivation |-> <<"generatedEntity", "usedEntity", "activity", "generation", "usage">>,
    attribution |-> <<"entity", "agent">>, association |-> <<"activity", "agent", "plan">>,
    delegation |-> <<"delegate", "responsible", "activity">>, influence |-> <<"influencee", "influencer">>,
    specialization |-> <<"specificEntity", "generalEntity">>, alternate |-> <<"alternate1", "alternate2">>,
    mention |-> <<"specificEntity", "generalEntity", "bundle">>, membership |-> <<"collection", "entity">> ]
XCommon == <<"label", "location", "role", "type", "value">>

IsProvEl(e) == e.ns = ProvNS
XAttr(e, ns, l) == {i \in 1..Len(e.attrs) : e.attrs[i][1].ns = ns /\ e.attrs[i][1].l = l}
XHasAttr(e, ns, l) == XAttr(e, ns, l) # {}
XGetAttr(e, ns, l) == e.attrs[CHOOSE i \in XAttr(e, ns, l) : TRUE][2]

(* QName -> URI through the in-scope bindings of element e *)
XScope(e) == [p \in {e.nsmap[i][1] : i \in 1..Len(e.nsmap)} |->
                (e.nsmap[CHOOSE i \in 1..Len(e.nsmap) : e.nsmap[i][1] = p])[2]]
XQName(e, s) ==
  IF s.qn = <<>> THEN NONE
  ELSE LET q == s.qn[1]
           sc == XScope(e)
       IN IF q.p \in DOMAIN sc THEN sc[q.p] \o q.l ELSE NONE
(* the XML Schema namespace is spelt without '#' in PROV-XML; both denote the XSD datatypes *)
XsdName(u) == IF Len(u) = 2 /\ u[1] \in {"xsd", "xsd#"} THEN u[2] ELSE ""
CanonDT(u) == IF Len(u) = 2 /\ u[1] = "xsd" THEN <<"xsd#", u[2]>> ELSE u

XIsTime(e) == IsProvEl(e) /\ e.l \in JTimeAttrs
XTextNode(e) == IF e.text.j = "null"
                THEN [j |-> "str", v |-> "e", raw |-> "", qn |-> <<>>, uri |-> <<>>, iso |-> "",
                      int |-> "", flt |-> "", bool |-> ""]          \* empty element = empty string
                ELSE e.text
(* the value a child element carries *)
XValue(c) ==
  LET tx == XTextNode(c) IN
  IF XHasAttr(c, ProvNS, "ref") THEN [t |-> "qn", u |-> XQName(c, XGetAttr(c, ProvNS, "ref"))]
  ELSE IF XHasAttr(c, <<"xml">>, "lang") THEN [t |-> "lang", v |-> tx.v, lang |-> XGetAttr(c, <<"xml">>, "lang").raw]
  ELSE IF XHasAttr(c, XsiNS, "type") THEN
       LET dt == XQName(c, XGetAttr(c, XsiNS, "type"))
           x  == XsdName(dt)
       IN IF dt = NONE THEN Bad("unbound xsi:type")
          ELSE IF x = "QName" THEN [t |-> "qn", u |-> XQName(c, tx)]
          ELSE IF x = "string" THEN [t |-> "str", v |-> tx.v]
          ELSE IF x \in JIntTypes THEN [t |-> "int", v |-> tx.int]
          ELSE IF x \in {"double", "float", "decimal"} THEN [t |-> "float", v |-> tx.flt]
          ELSE IF x = "boolean" THEN [t |-> "bool", v |-> tx.bool]
          ELSE IF x = "dateTime" THEN [t |-> "dt", v |-> tx.iso]
          ELSE IF x = "anyURI" THEN [t |-> "uri", u |-> tx.uri]
          ELSE [t |-> "lit", v |-> tx.v, dt |-> CanonDT(dt)]
  ELSE IF XIsTime(c) THEN [t |-> "dt", v |-> tx.iso]
  ELSE [t |-> "str", v |-> tx.v]

XRecord(e) ==
  LET base == XKind[e.l]
      sub  == IF e.l \in DOMAIN XSubtype
              THEN {[a |-> <<"prov#", "type">>, v |-> [t |-> "qn", u |-> <<"prov#", XSubtype[e.l]>>]]}
              ELSE {}
      tyat == IF XHasAttr(e, XsiNS, "type")     \* xsi:type on the record element itself = a prov:type
              THEN {[a |-> <<"prov#", "type">>, v |-> [t |-> "qn", u |-> XQName(e, XGetAttr(e, XsiNS, "type"))]]}
              ELSE {}
  IN [k |-> base,
      id |-> IF XHasAttr(e, ProvNS, "id") THEN XQName(e, XGetAttr(e, ProvNS, "id")) ELSE NONE,
      attrs |-> {[a |-> e.kids[i].ns \o e.kids[i].ls, v |-> XValue(e.kids[i])] : i \in 1..Len(e.kids)}
                \cup sub \cup tyat]

XIsRecord(e) == IsProvEl(e) /\ e.l \in DOMAIN XKind
XRecs(parent) == LET idx == SelectSeq([i \in 1..Len(parent.kids) |-> i], LAMBDA i : XIsRecord(parent.kids[i]))
                 IN [n \in 1..Len(idx) |-> XRecord(parent.kids[idx[n]])]
XBundles(root) == SelectSeq(root.kids, LAMBDA e : IsProvEl(e) /\ e.l = "bundleContent")

SpecReadXML(root) ==
  LET bs == XBundles(root) IN
  [recs |-> XRecs(root),
   bundles |-> [i \in 1..Len(bs) |->
                  [id |-> IF XHasAttr(bs[i], ProvNS, "id") THEN XQName(bs[i], XGetAttr(bs[i], ProvNS, "id")) ELSE NONE,
                   recs |-> XRecs(bs[i])]]]

(* ---- structural rules ---- *)
XRank(kind, c) ==
  IF IsProvEl(c) THEN
       LET fs == XFormals[kind]
           fi == {i \in 1..Len(fs) : fs[i] = c.l}
           ci == {i \in 1..Len(XCommon) : XCommon[i] = c.l}
       IN IF fi # {} THEN CHOOSE i \in fi : TRUE
          ELSE IF ci # {} THEN 10 + (CHOOSE i \in ci : TRUE)
          ELSE 0                                     \* a prov child that does not belong here
  ELSE 20
WfRecord(e) ==
  LET kind == XKind[e.l] IN
  /\ \A i \in 1..Len(e.kids) : XRank(kind, e.kids[i]) > 0 /\ e.kids[i].kids = <<>>
  /\ \A i \in 1..(Len(e.kids) - 1) : XRank(kind, e.kids[i]) <= XRank(kind, e.kids[i + 1])
  /\ \A i \in 1..Len(e.kids) :
       LET c == e.kids[i] IN
       (IsProvEl(c) /\ c.l \in JRefAttrs) => (XHasAttr(c, ProvNS, "ref") /\ c.text.j = "null")
  /\ \A i \in 1..Len(e.attrs) :
       \/ (e.attrs[i][1].ns = ProvNS /\ e.attrs[i][1].l = "id")
       \/ (e.attrs[i][1].ns = XsiNS /\ e.attrs[i][1].l = "type")
WfContainerXML(c) ==
  \A i \in 1..Len(c.kids) :
     LET e == c.kids[i] IN
     IsProvEl(e) /\ (XIsRecord(e) => WfRecord(e)) /\ (XIsRecord(e) \/ e.l \in {"bundleContent", "other"})
WfXML(root) ==
  /\ IsProvEl(root) /\ root.l = "document"
  /\ WfContainerXML(root)
  /\ \A i \in 1..Len(root.kids) :
       (root.kids[i].l = "bundleContent") =>
          (XHasAttr(root.kids[i], ProvNS, "id") /\ WfContainerXML(root.kids[i])
           /\ \A j \in 1..Len(root.kids[i].kids) : root.kids[i].kids[j].l # "bundleContent")
=============================================================================
