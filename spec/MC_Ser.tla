------------------------------- MODULE MC_Ser -------------------------------
(***************************************************************************)
(* Documents for the serialisation properties (C01, C02, C06, C07, C10,    *)
(* C13, C14, C15): built through the public construction API, then         *)
(* exported by one final call (round trip / export), which the driver      *)
(* performs in the requested format(s).                                    *)
(*  Mode "shapes": every record kind x every subset of optional formal     *)
(*    arguments x identified/anonymous x attribute class x value kind,     *)
(*    alone or next to a second record (same identifier, bundle).          *)
(*  Mode "ns": namespace histories on a document and its bundle (clashing  *)
(*    prefixes, defaults at both levels, names as strings / full URIs /    *)
(*    QualifiedName objects) followed by records using them.               *)
(***************************************************************************)
EXTENDS KnownFindings, Json

CONSTANTS Mode, MaxDepth, Emit, WalkLen,
          FinalOp,      \* "RT" (write, lex, read back) | "Export"
          Fmts, Opts,   \* formats and writer option sets of the final call
          ExtraPreset,  \* which <<attribute class, value class>> pairs records carry
          KindSet       \* record kinds

VARIABLES ms, hist
vars == <<ms, hist>>
View == <<ms, Len(hist)>>

A  == <<"a">>
AB == <<"a", "b">>
C  == <<"c">>
X  == <<"x">>
Y  == <<"y">>

Setup ==
  << [op |-> "NewDoc", out |-> "d1"],
     [op |-> "AddNs", h |-> "d1", p |-> "ex", u |-> A] >>
  \o (IF Mode = "ns" THEN << [op |-> "Bundle", h |-> "d1", id |-> NamePL("ex", <<"b1">>), out |-> "b1"] >> ELSE <<>>)
  \* mode "addb": a bundle built on its own, named in a namespace the document does not declare,
  \* attached with add_bundle(); then the menu of mode "ns"
  \* (mode "addbd": in a third namespace that no action of the menu mentions)
  \o (IF Mode \in {"addb", "addbd"}
      THEN << [op |-> "NewBundle", id |-> [p |-> "q", ns |-> IF Mode = "addb" THEN C ELSE <<"d">>, l |-> <<"b1">>], out |-> "b1"],
              [op |-> "AddBundle", h |-> "d1", arg |-> "b1", id |-> <<>>, out |-> "bx"] >>
      ELSE <<>>)
  \* mode "conflict": a document that cannot be unified (one activity stated with two start times), with a
  \* relation stated before the elements it mentions (exporters that unify first have to cope)
  \o (IF Mode = "conflict"
      THEN << [op |-> "NewRec", h |-> "d1", k |-> "generation", via |-> "new_record", id |-> <<>>,
               formals |-> << <<"entity", [t |-> "name", n |-> NamePL("ex", X)]>>, <<"activity", [t |-> "name", n |-> NamePL("ex", Y)]>> >>, extras |-> <<>>],
              [op |-> "NewRec", h |-> "d1", k |-> "activity", via |-> "new_record", id |-> <<NamePL("ex", Y)>>,
               formals |-> << <<"startTime", [t |-> "dt", v |-> "t1"]>> >>, extras |-> <<>>],
              [op |-> "NewRec", h |-> "d1", k |-> "activity", via |-> "new_record", id |-> <<NamePL("ex", Y)>>,
               formals |-> << <<"startTime", [t |-> "dt", v |-> "t2"]>> >>, extras |-> <<>>] >>
      ELSE <<>>)
  \* mode "dotb": relations that need a blank node (n-ary) at top level AND inside a bundle, and a
  \* bundle that states one element twice (unification happens per bundle)
  \o (IF Mode = "dotb"
      THEN LET gen(h) == [op |-> "NewRec", h |-> h, k |-> "generation", via |-> "new_record", id |-> <<>>,
                          formals |-> << <<"entity", [t |-> "name", n |-> NamePL("ex", X)]>>,
                                         <<"activity", [t |-> "name", n |-> NamePL("ex", Y)]>>,
                                         <<"time", [t |-> "dt", v |-> "t1"]>> >>, extras |-> <<>>]
               ent(h, v) == [op |-> "NewRec", h |-> h, k |-> "entity", via |-> "new_record",
                             id |-> <<NamePL("ex", X)>>, formals |-> <<>>,
                             extras |-> << <<NameQN("ex", A, <<"attr">>), v>> >>]
           IN << gen("d1"), [op |-> "Bundle", h |-> "d1", id |-> NamePL("ex", <<"b1">>), out |-> "b1"],
                 gen("b1"), ent("b1", [t |-> "str", v |-> "s1"]), ent("b1", [t |-> "int", v |-> "7"]) >>
      ELSE <<>>)
  \* mode "ns2": a document with its own default namespace and TWO bundles (what one bundle declares must
  \* not reach the next one)
  \o (IF Mode = "ns2" THEN << [op |-> "SetDefault", h |-> "d1", u |-> A],
                               [op |-> "Bundle", h |-> "d1", id |-> NamePL("ex", <<"b1">>), out |-> "b1"],
                               [op |-> "Bundle", h |-> "d1", id |-> NamePL("ex", <<"b2">>), out |-> "b2"] >> ELSE <<>>)
NSetup == Len(Setup)
Init == ms = RunF(InitMs("empty"), Setup, NSetup) /\ hist = Setup

Ref(n) == [t |-> "name", n |-> n]
Mandatory == [entity |-> 0, agent |-> 0, activity |-> 0, generation |-> 1, usage |-> 1,
              communication |-> 2, start |-> 1, end |-> 1, invalidation |-> 1, derivation |-> 2,
              attribution |-> 2, association |-> 1, delegation |-> 2, influence |-> 2,
              specialization |-> 2, alternate |-> 2, mention |-> 3, membership |-> 2]
FormalVal(f, i) ==
  IF f \in TimeAttrs THEN [t |-> "dt", v |-> IF i = 1 THEN "t1" ELSE "t2"]
  ELSE Ref(NamePL("ex", IF i % 2 = 1 THEN X ELSE Y))
(* all masks: mandatory formals present, any subset of the optional ones *)
Masks(k) == LET n == Len(Formals[k]) IN {S \in SUBSET (1..n) : \A i \in 1..Mandatory[k] : i \in S}
FormalsOf(k, S) == LET idx == SetToSortSeq(S, <) IN
                   [j \in 1..Len(idx) |-> <<Formals[k][idx[j]], FormalVal(Formals[k][idx[j]], idx[j])>>]

AttrNames == [other |-> NameQN("ex", A, <<"attr">>), type |-> NamePL("prov", <<"type">>),
              label |-> NamePL("prov", <<"label">>), location |-> NamePL("prov", <<"location">>),
              value |-> NamePL("prov", <<"value">>), role |-> NamePL("prov", <<"role">>),
              timeish |-> NameQN("ex", A, <<"startTime">>),
              \* PROV formal attributes carried as additional attributes by kinds that do not own them
              foreignref |-> NamePL("prov", <<"plan">>), foreigntime |-> NamePL("prov", <<"endTime">>)]
Vals ==
  [ str |-> <<[t |-> "str", v |-> "s1"]>>, empty |-> <<[t |-> "str", v |-> "e"]>>,
    int |-> <<[t |-> "int", v |-> "1"]>>, big |-> <<[t |-> "int", v |-> "7"]>>,
    float |-> <<[t |-> "float", v |-> "h"]>>, true |-> <<[t |-> "bool", v |-> "1"]>>,
    false |-> <<[t |-> "bool", v |-> "0"]>>, dt |-> <<[t |-> "dt", v |-> "t1"]>>,
    uri |-> <<[t |-> "uri", u |-> A \o Y]>>, qn |-> <<Ref(NameQN("ex", A, Y))>>,
    uriamp |-> <<[t |-> "uri", u |-> C \o <<"amp">>]>>,
    qnew |-> <<Ref(NameQN("zz", C, Y))>>,
    lang |-> <<[t |-> "lang", v |-> "s1", lang |-> "en"]>>,
    qndflt |-> <<Ref(NameQN("", C, Y))>>,
    fone |-> <<[t |-> "float", v |-> "1"]>>,
    twosub |-> <<Ref(NameQN("prov", ProvNS, <<"Person">>)), Ref(NameQN("prov", ProvNS, <<"Organization">>))>>,
    twosubE |-> <<Ref(NameQN("prov", ProvNS, <<"Plan">>)), Ref(NameQN("prov", ProvNS, <<"Collection">>))>>,
    typetwo |-> <<Ref(NameQN("prov", ProvNS, <<"Person">>)), Ref(NameQN("ex", A, Y))>>,
    emptylang |-> <<[t |-> "lang", v |-> "e", lang |-> "en"]>>,
    emptylit |-> <<[t |-> "lit", v |-> "e", dt |-> QN("ex", A, <<"dtype">>)]>>,
    zero |-> <<[t |-> "int", v |-> "0"], [t |-> "float", v |-> "h"]>>,
    nasty |-> <<[t |-> "str", v |-> "nq"]>>,
    nastylang |-> <<[t |-> "lang", v |-> "nq", lang |-> "fr"]>>,
    nastylit |-> <<[t |-> "lit", v |-> "nq", dt |-> QN("ex", A, <<"dtype">>)]>>,
    lit |-> <<[t |-> "lit", v |-> "s1", dt |-> QN("ex", A, <<"dtype">>)]>>,
    litnew |-> <<[t |-> "lit", v |-> "s1", dt |-> QN("zz", C, <<"dtype">>)]>>,
    two |-> <<[t |-> "str", v |-> "s1"], [t |-> "int", v |-> "7"]>>,
    twoqn |-> <<Ref(NameQN("ex", A, Y)), [t |-> "str", v |-> "s2"]>>,
    subtype |-> <<Ref(NameQN("prov", ProvNS, <<"Person">>))>>,
    \* a prov:type naming the record's OWN base class, per kind
    tyEntity |-> <<Ref(NameQN("prov", ProvNS, <<"Entity">>))>>, tyAgent |-> <<Ref(NameQN("prov", ProvNS, <<"Agent">>))>>,
    tyDerivation |-> <<Ref(NameQN("prov", ProvNS, <<"Derivation">>))>>,
    \* two values of one attribute with the same text and different kinds
    sametext |-> <<[t |-> "int", v |-> "1"], [t |-> "str", v |-> "n1"]>>,
    \* one text under two language tags
    \* a language tag that is not in the conventional spelling (kept verbatim)
    langcase |-> <<[t |-> "lang", v |-> "s1", lang |-> "EN-gb"]>>,
    twolang |-> <<[t |-> "lang", v |-> "s1", lang |-> "en"], [t |-> "lang", v |-> "s1", lang |-> "fr"]>>,
    none |-> <<>> ]
ValueClasses == DOMAIN Vals
ExtraSet ==
  CASE ExtraPreset = "min"    -> {<<"other", "none">>, <<"other", "two">>, <<"other", "nasty">>}
    [] ExtraPreset = "values" -> {<<"other", v>> : v \in ValueClasses}
    [] ExtraPreset = "attrs"  -> {<<a, v>> : a \in DOMAIN AttrNames \ {"timeish", "foreignref", "foreigntime"}, v \in {"str", "qn", "int", "subtype"}}
                                 \cup {<<"foreignref", "qn">>, <<"foreignref", "qnew">>, <<"foreigntime", "dt">>}
                                 \cup {<<"type", "tyEntity">>, <<"type", "tyAgent">>, <<"type", "tyDerivation">>,
                                       <<"other", "sametext">>, <<"type", "sametext">>}
                                 \cup {<<"timeish", "dt">>, <<"value", "dt">>, <<"location", "dt">>, <<"type", "twosub">>,
                                       <<"type", "twosubE">>, <<"type", "typetwo">>, <<"type", "uri">>, <<"location", "lang">>}
    [] ExtraPreset = "all"    -> {<<a, v>> : a \in DOMAIN AttrNames \ {"timeish", "foreignref", "foreigntime"}, v \in ValueClasses}
                                 \cup {<<"timeish", "dt">>, <<"foreignref", "qn">>, <<"foreignref", "qnew">>, <<"foreigntime", "dt">>}
(* PROV-XML types prov:label as a string: only plain and language-tagged labels are XML-expressible *)
(* ... and the schema gives every record element a closed list of prov: children, so a PROV formal *)
(* attribute on a kind that does not own it (prov:plan in a wasDerivedFrom) is not XML-expressible *)
XmlOK(e) == ("xml" \notin Fmts) \/ (e[1] \notin {"label", "foreignref", "foreigntime"})
            \/ (e[1] = "label" /\ e[2] \in {"str", "empty", "lang", "none", "nasty", "nastylang"})
(* FinalOp = "Export" (C13): Fmts is the set of exporters; every ordered pair and a triple repetition *)
(* ... and a-b-a: the same export before and after another one                                   *)
ExportSeqs == {<<a, b>> : a \in Fmts, b \in Fmts} \cup {<<a, a, a>> : a \in Fmts}
              \cup {<<a, b, a>> : a \in Fmts \ {"eq", "eqother", "hash"}, b \in Fmts \ {"hash"}}
(* FinalOp = "Dot" (C15): every combination of the display options; Opts = directions *)
DotFinal == {[op |-> "Dot", h |-> "d1",
              opts |-> [nary |-> a, labels |-> b, elattrs |-> c, relattrs |-> d, dir |-> o]]
               : a \in BOOLEAN, b \in BOOLEAN, c \in BOOLEAN, d \in BOOLEAN, o \in Opts}
(* FinalOp = "Load" (C11): spellings of the document that the library's writers never produce. *)
(* One flag at a time over a neutral base, plus everything at once.                            *)
FBase == [arr1 |-> FALSE, recarr |-> FALSE, int |-> "bare", bool |-> "bare", str |-> "bare", float |-> "typed",
          qn |-> "PROV", bprefix |-> FALSE, keys |-> "asis", indent |-> FALSE, subtype |-> FALSE, comment |-> FALSE,
          member |-> FALSE, bodykeys |-> "asis", localns |-> "", eltype |-> FALSE, xsdp |-> "xsd", timetype |-> FALSE, brebind |-> FALSE, bundlefirst |-> FALSE]
FlagSets ==
  { FBase, [FBase EXCEPT !.arr1 = TRUE], [FBase EXCEPT !.recarr = TRUE], [FBase EXCEPT !.int = "typed"],
    [FBase EXCEPT !.int = "typedstr"], [FBase EXCEPT !.int = "long"], [FBase EXCEPT !.bool = "typed"],
    [FBase EXCEPT !.bool = "typedstr"], [FBase EXCEPT !.str = "typed"], [FBase EXCEPT !.float = "typedstr"],
    [FBase EXCEPT !.qn = "QName"], [FBase EXCEPT !.bprefix = TRUE], [FBase EXCEPT !.keys = "reversed"],
    [FBase EXCEPT !.indent = TRUE], [FBase EXCEPT !.subtype = TRUE], [FBase EXCEPT !.comment = TRUE],
    [FBase EXCEPT !.member = TRUE], [FBase EXCEPT !.member = TRUE, !.bodykeys = "reversed"],
    [FBase EXCEPT !.bodykeys = "reversed"], [FBase EXCEPT !.localns = "new"], [FBase EXCEPT !.localns = "rebind"],
    [FBase EXCEPT !.float = "intnum"], [FBase EXCEPT !.bool = "typednum"], [FBase EXCEPT !.eltype = TRUE],
    [FBase EXCEPT !.eltype = TRUE, !.subtype = TRUE],
    [FBase EXCEPT !.timetype = TRUE],
    [FBase EXCEPT !.brebind = TRUE], [FBase EXCEPT !.brebind = TRUE, !.bundlefirst = TRUE],
    [FBase EXCEPT !.xsdp = "xs"], [FBase EXCEPT !.xsdp = "xs", !.int = "typed", !.bool = "typed", !.str = "typed"],
    [arr1 |-> TRUE, recarr |-> TRUE, int |-> "typedstr", bool |-> "typedstr", str |-> "typed", float |-> "typedstr",
     qn |-> "PROV", bprefix |-> TRUE, keys |-> "reversed", indent |-> TRUE, subtype |-> TRUE, comment |-> TRUE,
     member |-> TRUE, bodykeys |-> "reversed", localns |-> "new", eltype |-> TRUE, xsdp |-> "xs", timetype |-> TRUE, brebind |-> FALSE, bundlefirst |-> TRUE] }
LoadFinal == {[op |-> "Load", h |-> "d1", fmt |-> f, fl |-> x] : f \in Fmts, x \in FlagSets}
Final == IF FinalOp = "Load" THEN LoadFinal ELSE IF FinalOp = "Dot" THEN DotFinal ELSE IF FinalOp = "Export"
         THEN {[op |-> "Export", h |-> "d1", seq |-> q] : q \in ExportSeqs}
         ELSE {[op |-> FinalOp, h |-> "d1", fmt |-> f, opts |-> o] : f \in Fmts, o \in Opts}
ExtrasOf(e) == [i \in 1..Len(Vals[e[2]]) |-> <<AttrNames[e[1]], Vals[e[2]][i]>>]
(* values that Python compares equal (1 == True == 1.0, 0 == False) under DIFFERENT attributes of *)
(* one record: each keeps its own kind (nothing in the claimed space makes them share a set)     *)
Attr2 == NameQN("ex", A, <<"attr2">>)
SpecialExtras ==
  IF ExtraPreset \in {"values", "all"}
  THEN { << <<AttrNames.other, [t |-> "int", v |-> "1"]>>, <<Attr2, [t |-> "bool", v |-> "1"]>> >>,
         << <<AttrNames.other, [t |-> "bool", v |-> "1"]>>, <<Attr2, [t |-> "float", v |-> "1"]>> >>,
         << <<AttrNames.other, [t |-> "float", v |-> "1"]>>, <<Attr2, [t |-> "int", v |-> "1"]>> >>,
         << <<AttrNames.other, [t |-> "bool", v |-> "0"]>>, <<Attr2, [t |-> "int", v |-> "0"]>> >>,
         << <<AttrNames.other, [t |-> "int", v |-> "0"]>>, <<Attr2, [t |-> "float", v |-> "0"]>> >> }
  ELSE IF ExtraPreset = "attrs"
  \* an application attribute that shares its local name with a PROV one, next to PROV attributes of
  \* the same and of a later schema rank (PROV-XML: all prov: children first, then other namespaces)
  THEN { << <<NameQN("ex", A, <<"type">>), [t |-> "str", v |-> "s1"]>>,
            <<NamePL("prov", <<"type">>), Ref(NameQN("ex", A, Y))>>,
            <<NamePL("prov", <<"value">>), [t |-> "int", v |-> "1"]>> >>,
         << <<NameQN("ex", A, <<"label">>), [t |-> "str", v |-> "s1"]>>,
            <<NamePL("prov", <<"label">>), [t |-> "str", v |-> "s2"]>>,
            <<NamePL("prov", <<"location">>), [t |-> "str", v |-> "s1"]>> >>,
         << <<NameQN("ex", A, <<"role">>), [t |-> "str", v |-> "s1"]>>,
            <<NamePL("prov", <<"role">>), [t |-> "str", v |-> "s2"]>> >> }
  ELSE {}

IdOptions(k) == IF k \in Elements THEN {<<NamePL("ex", <<"r">>)>>}
                ELSE {<<>>, <<NamePL("ex", <<"r">>)>>}
ShapeActsK(h, k) ==
  { [op |-> "NewRec", h |-> h, k |-> k, via |-> "new_record", id |-> i,
     formals |-> FormalsOf(k, S), extras |-> ExtrasOf(e)]
      : i \in IdOptions(k), S \in Masks(k), e \in {x \in ExtraSet : XmlOK(x)} }
  \cup
  { [op |-> "NewRec", h |-> h, k |-> k, via |-> "new_record", id |-> i,
     formals |-> FormalsOf(k, 1..Mandatory[k]), extras |-> e]
      : i \in IdOptions(k), e \in SpecialExtras }
ShapeActs(h) == UNION { ShapeActsK(h, k) : k \in KindSet }

(* Mode "rdf": the PROV-O expressible space of C07 as a generator: names under the declared   *)
(* prefix ex, first two formal arguments present, no mention, anonymous "simple" relations    *)
(* bare, values restricted to the claimed kinds                                               *)
RdfSimple == {"attribution", "communication", "delegation", "influence", "specialization",
              "alternate", "membership"}
RdfVals == {"none", "str", "empty", "emptylang", "twolang", "int", "big", "true", "false", "dt", "uri", "qn", "lang", "two", "nasty"}
RdfExtras == {<<"other", v>> : v \in RdfVals}
             \cup {<<"role", "str">>, <<"label", "str">>, <<"label", "lang">>, <<"location", "str">>,
                   <<"location", "qn">>, <<"value", "int">>, <<"value", "two">>, <<"type", "qn">>, <<"type", "str">>}
RdfMasks(k) == {S \in Masks(k) : k \in Elements \/ {1, 2} \subseteq S}
RdfOK(k, i, S, e) ==
  /\ k # "mention"
  /\ (k \in RdfSimple /\ i = <<>>) => (e[2] = "none" /\ S = {1, 2})
  /\ (e[1] = "role") => k \in {"generation", "usage", "association", "start", "end", "invalidation", "attribution", "delegation"}
RdfActsK(h, k) ==
  { [op |-> "NewRec", h |-> h, k |-> k, via |-> "new_record", id |-> x[1],
     formals |-> FormalsOf(k, x[2]), extras |-> ExtrasOf(x[3])]
      : x \in {y \in IdOptions(k) \X RdfMasks(k) \X RdfExtras : RdfOK(k, y[1], y[2], y[3])} }
RdfActs(h) == UNION { RdfActsK(h, k) : k \in KindSet }
(* second records: relations sharing the subject ex:x of the first one (plain and attributed, *)
(* same and other kinds), elements, and a bundle holding elements and relations of every    *)
(* "simple" kind                                                                             *)
RdfRel(h, k, S, e) == [op |-> "NewRec", h |-> h, k |-> k, via |-> "new_record", id |-> <<>>,
                       formals |-> [j \in 1..Len(S) |->
                                      <<Formals[k][S[j]], IF Formals[k][S[j]] \in TimeAttrs THEN [t |-> "dt", v |-> "t2"]
                                                          ELSE IF S[j] = 1 THEN Ref(NamePL("ex", X))
                                                          ELSE Ref(NamePL("ex", <<"z">>))>>],
                       extras |-> e]
RdfRelMenu(h) ==
  { RdfRel(h, "association", <<1, 2>>, <<>>), RdfRel(h, "association", <<1, 2, 3>>, <<>>),
    RdfRel(h, "association", <<1, 2>>, << <<NamePL("prov", <<"role">>), [t |-> "str", v |-> "s2"]>> >>),
    RdfRel(h, "generation", <<1, 2>>, <<>>), RdfRel(h, "generation", <<1, 2, 3>>, <<>>),
    RdfRel(h, "usage", <<1, 2, 3>>, <<>>), RdfRel(h, "derivation", <<1, 2, 3>>, <<>>),
    RdfRel(h, "delegation", <<1, 2>>, <<>>), RdfRel(h, "attribution", <<1, 2>>, <<>>),
    RdfRel(h, "communication", <<1, 2>>, <<>>), RdfRel(h, "start", <<1, 2, 3>>, <<>>),
    RdfRel(h, "membership", <<1, 2>>, <<>>), RdfRel(h, "specialization", <<1, 2>>, <<>>) }
RdfSecond ==
  { [op |-> "NewRec", h |-> "d1", k |-> "entity", via |-> "new_record", id |-> <<NamePL("ex", <<"r2">>)>>,
     formals |-> <<>>, extras |-> << <<NameQN("ex", A, <<"attr">>), [t |-> "int", v |-> "7"]>> >>],
    [op |-> "NewRec", h |-> "d1", k |-> "entity", via |-> "new_record", id |-> <<NamePL("ex", <<"r2">>)>>,
     formals |-> <<>>, extras |-> << <<NameQN("ex", A, <<"attr">>), [t |-> "str", v |-> "s1"]>> >>],
    \* the subject ex:x of the first record declared as an activity without times (what a relation says
    \* about it - a start time, say - is not said about the activity)
    [op |-> "NewRec", h |-> "d1", k |-> "activity", via |-> "new_record", id |-> <<NamePL("ex", X)>>,
     formals |-> <<>>, extras |-> <<>>],
    \* a record DECLARED under the name ex:y, which attribute values of the first record may mention
    [op |-> "NewRec", h |-> "d1", k |-> "entity", via |-> "new_record", id |-> <<NamePL("ex", Y)>>,
     formals |-> <<>>, extras |-> <<>>],
    \* plain relations whose endpoints lie in a namespace of their own, under a prefix that RDF tool kits
    \* pre-bind to something else (rdflib: schema, dc, foaf, ...); nothing else names that namespace
    [op |-> "NewRec", h |-> "d1", k |-> "attribution", via |-> "new_record", id |-> <<>>,
     formals |-> << <<"entity", Ref(NameQN("schema", C, X))>>, <<"agent", Ref(NameQN("schema", C, Y))>> >>, extras |-> <<>>],
    [op |-> "NewRec", h |-> "d1", k |-> "specialization", via |-> "new_record", id |-> <<>>,
     formals |-> << <<"specificEntity", Ref(NamePL("ex", X))>>, <<"generalEntity", Ref(NameQN("dc", C, Y))>> >>, extras |-> <<>>],
    [op |-> "Bundle", h |-> "d1", id |-> NamePL("ex", <<"b1">>), out |-> "b1"] }
  \cup RdfRelMenu("d1")
  \cup (IF "b1" \in DOMAIN ms.con
        THEN { [op |-> "NewRec", h |-> "b1", k |-> "agent", via |-> "new_record",
                id |-> <<NamePL("ex", <<"ag">>)>>, formals |-> <<>>, extras |-> <<>>],
               [hist[NSetup + 1] EXCEPT !.h = "b1"] } \cup RdfRelMenu("b1")
        ELSE {})
(* every bundle of an expressible document is non-empty *)
(* and no subject carries an identified and an anonymous relation of one kind *)
FirstRef(r) == LET vs == ValuesOf(r, <<"prov#", Formals[r.k][1]>>) IN IF vs = {} THEN NONE ELSE Uri((CHOOSE v \in vs : TRUE).q)
RdfComplete ==
  \A h \in DOMAIN ms.con :
     /\ ms.con[h].kind = "bun" => ms.con[h].recs # <<>>
     /\ \A i, j \in 1..Len(ms.con[h].recs) :
          LET r1 == ms.con[h].recs[i]
              r2 == ms.con[h].recs[j]
          IN (r1.k \notin Elements /\ r1.k = r2.k /\ r1.id.ok /\ ~r2.id.ok) => FirstRef(r1) # FirstRef(r2)

(* second records next to the first: same identifier again (same / other kind), and a bundle *)
SecondActs ==
  { [op |-> "NewRec", h |-> "d1", k |-> k, via |-> "new_record", id |-> <<NamePL("ex", <<"r">>)>>,
     formals |-> <<>>, extras |-> e]
      : k \in {"entity", "agent"},
        e \in { <<>>, << <<NameQN("ex", A, <<"attr">>), [t |-> "int", v |-> "7"]>> >> } }
  \cup { [op |-> "Bundle", h |-> "d1", id |-> NamePL("ex", <<"b1">>), out |-> "b1"] }
  \cup { [op |-> "NewRec", h |-> "d1", k |-> "membership", via |-> "new_record", id |-> <<>>,
           formals |-> << <<"collection", Ref(NamePL("ex", X))>>, <<"entity", Ref(NamePL("ex", e))>> >>,
           extras |-> <<>>] : e \in {<<"z">>, <<"w">>} }
  \cup (IF "b1" \in DOMAIN ms.con
        THEN { [op |-> "NewRec", h |-> "b1", k |-> "entity", via |-> "new_record",
                id |-> <<NamePL("ex", <<"r">>)>>, formals |-> <<>>, extras |-> <<>>] }
        ELSE {})
  \* follow-up modifications of the first record through the other mutators
  \cup (LET f == hist[NSetup + 1] IN
        IF f.op = "NewRec" /\ f.h = "d1"
        THEN { [op |-> "AddType", r |-> [c |-> "d1", i |-> 1], v |-> [t |-> "name", n |-> NameQN("prov", ProvNS, <<"Plan">>)]],
               [op |-> "AddAttrs", r |-> [c |-> "d1", i |-> 1], form |-> "pairs",
                pairs |-> << <<NameQN("ex", A, <<"attr2">>), [t |-> "int", v |-> "7"]>> >>] }
             \cup (IF f.k = "activity"
                   THEN { [op |-> "SetTime", r |-> [c |-> "d1", i |-> 1], start |-> <<>>, end |-> <<[t |-> "dt", v |-> "t2"]>>] }
                   ELSE {})
        ELSE {})
  \* the first record once more, same identifier, with only its mandatory formal arguments
  \* (records that share an identifier and differ in which optional arguments they carry)
  \cup (LET f == hist[NSetup + 1] IN
        IF f.op = "NewRec" /\ f.id # <<>> /\ Len(f.formals) > Mandatory[f.k]
        THEN { [f EXCEPT !.formals = SubSeq(@, 1, Mandatory[f.k]), !.extras = <<>>] }
        ELSE {})

(* Mode "ns": namespace declarations and records whose names exercise them *)
NsActs ==
  { [op |-> "AddNs", h |-> h, p |-> p, u |-> u] : h \in {"d1", "b1"}, p \in {"ex", "dn", "default"}, u \in {AB, C} }
  \* a pre-loaded prefix requested for another namespace (the XML Schema URI without '#')
  \cup { [op |-> "AddNs", h |-> "d1", p |-> "xsd", u |-> <<"xsd">>] }
  \cup { [op |-> "SetDefault", h |-> h, u |-> u]
           : h \in {x \in {"d1", "b1"} : TRUE}, u \in {A, C} }
NsRecActs ==
  { [op |-> "NewRec", h |-> h, k |-> "entity", via |-> "new_record", id |-> <<i>>,
     formals |-> <<>>, extras |-> e]
      : h \in {"d1", "b1"},
        i \in { NamePL("ex", X), NameBare(X), NameQN("", AB, X), NameQN("ex", C, X),
                NameUri(AB \o X), NameQN("dn", A, X), NameQN("default", C, X) },
        e \in { <<>>, << <<NameQN("", C, <<"attr">>), Ref(NameQN("ex", AB, Y))>> >>,
                << <<NamePL("ex", <<"attr">>), [t |-> "int", v |-> "7"]>> >>,
                << <<NamePL("ex", <<"attr">>), [t |-> "lit", v |-> "s1", dt |-> QN("q", C, <<"dtype">>)]>> >> } }
  \cup { [op |-> "NewRec", h |-> h, k |-> "generation", via |-> "new_record", id |-> <<>>,
           formals |-> << <<"entity", Ref(e)>>, <<"activity", Ref(NameQN("", C, Y))>> >>, extras |-> <<>>]
           : h \in {"d1", "b1"}, e \in {NamePL("ex", X), NameBare(X)} }
Ns2Acts ==
  { [op |-> "SetDefault", h |-> h, u |-> C] : h \in {"b1", "b2"} }
  \cup { [op |-> "AddNs", h |-> h, p |-> "q", u |-> C] : h \in {"b1", "b2"} }
  \cup { [op |-> "NewRec", h |-> h, k |-> "entity", via |-> "new_record", id |-> <<i>>, formals |-> <<>>, extras |-> e]
           : h \in {"b1", "b2", "d1"}, i \in {NameBare(X), NamePL("ex", X), NameQN("q", C, X)},
             e \in { <<>>, << <<NameBare(<<"attr">>), [t |-> "str", v |-> "s1"]>> >> } }
(* Mode "graph": bundle-free documents with declared and undeclared endpoints, repeated     *)
(* identifiers, parallel relations, self-loops, relations lacking an endpoint (C14, C15)     *)
Z == <<"z">>
GR(k, idn, fs, ex) == [op |-> "NewRec", h |-> "d1", k |-> k, via |-> "new_record", id |-> idn,
                       formals |-> fs, extras |-> ex]
Rf(l) == Ref(NamePL("ex", l))
GraphActs ==
  { GR("entity", <<NamePL("ex", X)>>, <<>>, <<>>),
    GR("entity", <<NamePL("ex", X)>>, <<>>, << <<NameQN("ex", A, <<"attr">>), [t |-> "str", v |-> "s1"]>> >>),
    GR("agent", <<NamePL("ex", X)>>, <<>>, <<>>),
    GR("activity", <<NamePL("ex", Y)>>, << <<"startTime", [t |-> "dt", v |-> "t1"]>> >>, <<>>),
    GR("entity", <<NamePL("ex", Y)>>, <<>>, << <<NamePL("prov", <<"label">>), [t |-> "str", v |-> "s2"]>> >>),
    GR("agent", <<NamePL("ex", Z)>>, <<>>, << <<NamePL("prov", <<"label">>), [t |-> "str", v |-> "nq"]>>,
                                             <<NameQN("ex", A, <<"attr">>), [t |-> "str", v |-> "nq"]>> >>),
    GR("entity", <<NamePL("ex", Z)>>, <<>>, << <<NamePL("prov", <<"label">>), [t |-> "lang", v |-> "nq", lang |-> "fr"]>> >>),
    GR("generation", <<>>, << <<"entity", Rf(X)>>, <<"activity", Rf(Y)>> >>, <<>>),
    GR("generation", <<NamePL("ex", <<"g">>)>>, << <<"entity", Rf(X)>>, <<"activity", Rf(Y)>>, <<"time", [t |-> "dt", v |-> "t1"]>> >>,
       << <<NamePL("prov", <<"role">>), [t |-> "str", v |-> "s1"]>> >>),
    GR("generation", <<>>, << <<"entity", Rf(X)>> >>, <<>>),
    GR("usage", <<>>, << <<"activity", Rf(Y)>>, <<"entity", Rf(Z)>> >>, <<>>),
    GR("derivation", <<>>, << <<"generatedEntity", Rf(X)>>, <<"usedEntity", Rf(X)>> >>, <<>>),
    GR("derivation", <<>>, << <<"generatedEntity", Rf(X)>>, <<"usedEntity", Rf(Z)>>, <<"activity", Rf(Y)>> >>, <<>>),
    GR("attribution", <<>>, << <<"entity", Rf(X)>>, <<"agent", Rf(Z)>> >>, <<>>),
    GR("association", <<>>, << <<"activity", Rf(Y)>>, <<"agent", Rf(X)>>, <<"plan", Rf(Z)>> >>, <<>>),
    GR("influence", <<>>, << <<"influencee", Rf(X)>>, <<"influencer", Rf(Y)>> >>, <<>>),
    GR("membership", <<>>, << <<"collection", Rf(X)>>, <<"entity", Rf(Y)>> >>, <<>>),
    GR("specialization", <<>>, << <<"specificEntity", Rf(X)>>, <<"generalEntity", Rf(Z)>> >>, <<>>),
    \* an identifier nobody declares, referenced where an entity and where an agent is expected
    GR("usage", <<>>, << <<"activity", Rf(Y)>>, <<"entity", Rf(<<"u">>)>> >>, <<>>),
    GR("association", <<>>, << <<"activity", Rf(Y)>>, <<"agent", Rf(<<"u">>)>> >>, <<>>),
    \* an element with two values under one attribute name
    GR("entity", <<NamePL("ex", X)>>, <<>>, << <<NameQN("ex", A, <<"attr">>), [t |-> "str", v |-> "s2"]>>,
                                             <<NameQN("ex", A, <<"attr">>), [t |-> "int", v |-> "7"]>> >>),
    \* an endpoint is missing although a LATER qualified-name argument is present: still no edge
    \* a URI VALUE with a query string (an ampersand): links in the drawing carry it
    GR("entity", <<NamePL("ex", <<"w">>)>>, <<>>, << <<NameQN("ex", A, <<"attr">>), [t |-> "uri", u |-> C \o <<"amp">>]>> >>),
    GR("association", <<>>, << <<"activity", Rf(Y)>>, <<"plan", Rf(Z)>> >>, <<>>),
    GR("start", <<>>, << <<"activity", Rf(Y)>>, <<"starter", Rf(X)>> >>, <<>>),
    GR("delegation", <<>>, << <<"responsible", Rf(X)>>, <<"activity", Rf(Y)>> >>, <<>>) }

DefaultOK(a) == IF a.op = "SetDefault" THEN ms.mgr[MgrOf(ms, a.h)].dflt \in {NONE, a.u} ELSE TRUE

Finished == Len(hist) > NSetup /\ hist[Len(hist)] \in Final
Step(a) == /\ ms' = ApplyF(ms, a).st
           /\ hist' = Append(hist, a)
           /\ IF Emit = "all" \/ (Emit = "final" /\ a \in Final) \/ (Emit = "walk" /\ Len(hist') = WalkLen)
              THEN PrintT("TR " \o ToJson(hist')) ELSE TRUE

Build ==
  /\ ~Finished /\ Len(hist) < NSetup + MaxDepth
  /\ IF Mode = "shapes"
     THEN \/ (Len(hist) = NSetup /\ \E a \in ShapeActs("d1") : Step(a))
          \/ (Len(hist) > NSetup /\ \E a \in SecondActs : Step(a))
     ELSE IF Mode \in {"graph", "conflict"} THEN \E a \in GraphActs : Step(a)
     ELSE IF Mode = "dotb" THEN \E a \in {x \in GraphActs : x.k \in {"usage", "agent"}} : Step(a) \/ Step([a EXCEPT !.h = "b1"])
     ELSE IF Mode = "ns2" THEN \E a \in Ns2Acts : DefaultOK(a) /\ Step(a)
     ELSE IF Mode = "rdf"
     THEN \/ (Len(hist) = NSetup /\ \E a \in RdfActs("d1") : Step(a))
          \/ (Len(hist) > NSetup /\ \E a \in RdfSecond : Step(a))
     ELSE \E a \in NsActs \cup NsRecActs : DefaultOK(a) /\ Step(a)
Export == ~Finished /\ Len(hist) > NSetup /\ (Mode = "rdf" => RdfComplete) /\ \E a \in Final : Step(a)
Next == Build \/ Export
Spec == Init /\ [][Next]_vars

(* (A) for C01/C10 on the MODEL: what the transcribed PROV-JSON writer emits for the state, *)
(* read as the PROV-JSON submission says, is the content of the document -- except where a    *)
(* bundle shadows a binding of its document (known finding KF-C03-shadow)                     *)
ModelSrc(h) ==
  LET asLogged(c) == [i \in 1..Len(c.recs) |-> [ProjRec(c.recs[i]) EXCEPT !.attrs = SetToSeq(@)]] IN
  [recs |-> asLogged(ms.con[h]), ns |-> ProjNs(ms.mgr[ms.con[h].mgr]),
   bundles |-> [i \in 1..Len(ms.con[h].bundles) |->
                  LET b == ms.con[ms.con[h].bundles[i]] IN
                  [id |-> IF b.id.ok THEN Uri(b.id) ELSE NONE, recs |-> asLogged(b), ns |-> ProjNs(ms.mgr[b.mgr])]]]
JsonDenotes ==
  LET src == ModelSrc("d1")
      rd == ReadAJ(EncAJ(ms, "d1"))
  IN ReadBagEq(rd, src) \/ ShadowExplains(src, rd) \/ HasDefaultPrefix(src)
(* ... and read by the transcription of the library's OWN reader (DecJ: the calls it makes on a     *)
(* fresh document, executed by the model): no exception, same content - the PROV-JSON round trip   *)
(* (C01) decided on the model for every reachable state                                            *)
JsonRoundTrip ==
  LET src == ModelSrc("d1")
      r   == DecJ(EncAJ(ms, "d1"))
  IN HasDefaultPrefix(src) \/
     (r.exc = "none" /\ (ReadBagEq(RdOf(r.st, RH), src) \/ ShadowExplains(src, RdOf(r.st, RH))))
(* the same for the transcribed PROV-XML writer, for both values of force_types.  A literal typed *)
(* xsd:QName is not XML-expressible (C02's quantifier): the format spells qualified names so.     *)
HasQNameLit(src) ==
  LET all == SeqToSet(src.recs) \cup UNION {SeqToSet(src.bundles[i].recs) : i \in 1..Len(src.bundles)} IN
  \E r \in all : \E i \in 1..Len(r.attrs) : r.attrs[i].v.t = "lit" /\ r.attrs[i].v.dt \in {<<"xsd#", "QName">>, <<"xsd", "QName">>}
XmlDenotes ==
  LET src == ModelSrc("d1") IN
  HasQNameLit(src) \/
  \A force \in BOOLEAN :
     LET rd == ReadAX(EncAX(ms, "d1", force, NoObs)) IN
     ReadBagEq(rd, src) \/ ShadowExplains(src, rd)
(* ... and for the transcribed PROV-N printer: where its output is grammatical (identified or      *)
(* attributed expressions of the four kinds PROV-N gives no such syntax are KF-C06-noid), reading   *)
(* it as the recommendation says denotes the document                                               *)
ProvNDenotes ==
  LET src == ModelSrc("d1")
      pn  == EncPN(ms, "d1")
  IN APNWf(pn) => (ReadBagEq(ReadAPN(pn), src) \/ ReadBagEq(ReadAPNS(pn, TRUE), src) \/ ShadowExplains(src, ReadAPN(pn)) \/ ShadowExplains(src, ReadAPNS(pn, TRUE)))
(* ... and read by the transcription of the library's own PROV-XML reader (DecX): C02 on the model *)
XmlRoundTrip ==
  LET src == ModelSrc("d1") IN
  HasQNameLit(src) \/
  \A force \in BOOLEAN :
     LET r == DecX(EncAX(ms, "d1", force, NoObs)) IN
     r.exc = "none" /\ (ReadBagEq(RdOf(r.st, RH), src) \/ ShadowExplains(src, RdOf(r.st, RH)))
IndexOK == \A h \in DOMAIN ms.con : ms.con[h].kind # "loose" => IndexCoherent(ms.con[h])
=============================================================================
