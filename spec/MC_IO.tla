-------------------------------- MODULE MC_IO --------------------------------
(* (A) for C16: the detection loop returns the document for every readable    *)
(* format and source kind (repaired: Buffered); the original loop does not.   *)
(* (B) one IO call per format x document variant for the driver.              *)
EXTENDS IO, Json
CONSTANTS Emit
VARIABLES done
ASSUME ReadOK(TRUE)
ASSUME ~ReadOK(FALSE)
Init == /\ done = FALSE
        /\ (Emit = "all") =>
             \A f \in {"json", "xml", "rdf", "provn"}, v \in 0..7 :
                PrintT("TR " \o ToJson(<<[op |-> "IO", fmt |-> f, variant |-> v]>>))
Next == done' = TRUE /\ ~done
Spec == Init /\ [][Next]_done
=============================================================================
