-------------------------------- MODULE Names --------------------------------
(***************************************************************************)
(* prov.model.NamespaceManager, variable for variable (model.py 1010-1244).*)
(* Functional core: every operation is an operator from a manager state    *)
(* (and, for string resolution, the store of all managers, because of      *)
(* parent delegation) to a result and a new manager state.                 *)
(*                                                                         *)
(* st.tbl      the dict itself: prefix -> namespace URI.  Pre-loaded with  *)
(*             prov, xsd, xsi; holds "" after set_default_namespace.       *)
(* st.order    dict insertion order of st.tbl (URI compaction iterates it) *)
(* st.reg      _namespaces: the *registered* namespaces, in order          *)
(* st.urimap   _uri_map: URI -> the namespace registered for it            *)
(* st.rename   _rename_map: requested <<p,u>> -> namespace used instead    *)
(* st.prenamed _prefix_renamed_map: requested prefix -> namespace used     *)
(* st.dflt     _default: NONE, or the default namespace URI (set *or*      *)
(*             adopted from the first default-namespace QualifiedName;     *)
(*             both also write tbl[""])                                    *)
(* st.parent   id of the parent manager, "" when there is none             *)
(***************************************************************************)
EXTENDS Values

MgrInit(parent) ==
  [ tbl      |-> ("prov" :> ProvNS) @@ ("xsd" :> XsdNS) @@ ("xsi" :> XsiNS),
    order    |-> <<"prov", "xsd", "xsi">>,
    reg      |-> <<>>,
    urimap   |-> <<>>,
    rename   |-> <<>>,
    prenamed |-> <<>>,
    dflt     |-> NONE,
    parent   |-> parent ]

InTbl(st, p) == p \in DOMAIN st.tbl
RegOf(st) == SeqToSet(st.reg)

Sfx(p, k) == p \o "_" \o ToString(k)

(* `anc' is the merged table (prefix -> URI) of the ancestors of a manager, nearest first: a  *)
(* prefix an ancestor binds to ANOTHER namespace counts as a clash, because this manager also    *)
(* hands out the ancestor's names (string resolution is delegated to the parent)                *)
InheritedDifferently(anc, p, u) == p \in DOMAIN anc /\ anc[p] # u
Taken(st, anc, p) == InTbl(st, p) \/ p \in DOMAIN anc
(* _get_unused_prefix: p_1, p_2, ... tested against this table and the ancestors' *)
Unused(st, anc, p) ==
  IF ~Taken(st, anc, p) THEN p
  ELSE LET n == MinOf({k \in 1..(Cardinality(DOMAIN st.tbl) + Cardinality(DOMAIN anc) + 1) : ~Taken(st, anc, Sfx(p, k))})
       IN  Sfx(p, n)

(* dict assignment self[p] = ns : new keys go to the end of the order *)
SetTbl(st, p, u) ==
  [st EXCEPT !.tbl = (p :> u) @@ @,
             !.order = IF p \in DOMAIN st.tbl THEN @ ELSE Append(@, p)]

(* NamespaceManager.add_namespace(Namespace(p,u)) *)
AddNsF(st, anc, p, u) ==
  IF InTbl(st, p) /\ st.tbl[p] = u THEN [ns |-> <<p, u>>, st |-> st]
  ELSE IF <<p, u>> \in DOMAIN st.rename THEN [ns |-> st.rename[<<p, u>>], st |-> st]
  ELSE IF u \in DOMAIN st.urimap THEN
       LET e == st.urimap[u] IN
       [ns |-> e,
        st |-> [st EXCEPT !.rename = (<<p, u>> :> e) @@ @, !.prenamed = (p :> e) @@ @]]
  ELSE IF InTbl(st, p) \/ InheritedDifferently(anc, p, u) THEN
       LET np  == Unused(st, anc, p)
           new == <<np, u>>
           \* prenamed: from here on the STRING p:l means the new namespace in this manager, also when
           \* p was only an ancestor's (this is what lets a reader feed a bundle's own prefix block)
           s1  == [st EXCEPT !.rename = (<<p, u>> :> new) @@ @, !.prenamed = (p :> new) @@ @,
                             !.reg = Append(@, new), !.urimap = (u :> new) @@ @]
       IN [ns |-> new, st |-> SetTbl(s1, np, u)]
  ELSE LET s1 == [st EXCEPT !.reg = Append(@, <<p, u>>), !.urimap = (u :> <<p, u>>) @@ @]
       IN [ns |-> <<p, u>>, st |-> SetTbl(s1, p, u)]

(* NamespaceManager.set_default_namespace(u) *)
SetDefaultF(st, u) == [SetTbl(st, "", u) EXCEPT !.dflt = u]

(* valid_qualified_name(QualifiedName(Namespace(p, ns), l)) *)
ResolveQNF(st, anc, p, ns, l) ==
  IF p = "" THEN
       IF st.dflt = ns THEN [q |-> QN("", ns, l), st |-> st]
       \* adopted: registered like a default namespace that was set (it takes part in URI compaction)
       ELSE IF st.dflt = NONE THEN [q |-> QN("", ns, l), st |-> [SetTbl(st, "", ns) EXCEPT !.dflt = ns]]
       ELSE LET r == AddNsF(st, anc, "dn", ns) IN [q |-> QN(r.ns[1], r.ns[2], l), st |-> r.st]
  ELSE IF InTbl(st, p) /\ st.tbl[p] = ns THEN [q |-> QN(p, ns, l), st |-> st]
  ELSE LET r == AddNsF(st, anc, p, ns) IN [q |-> QN(r.ns[1], r.ns[2], l), st |-> r.st]

(* URI compaction: first table entry, in dict order, whose URI is a prefix of u *)
Compact(st, u) ==
  LET idxs == {i \in 1..Len(st.order) : IsPrefix(st.tbl[st.order[i]], u)} IN
  IF idxs = {} THEN NoQN
  ELSE LET p == st.order[MinOf(idxs)]
       IN  QN(p, st.tbl[p], SubSeq(u, Len(st.tbl[p]) + 1, Len(u)))

(* A string to resolve: 'p:l', bare 'l', or a full URI *)
StrPL(p, l)  == [k |-> "pl", p |-> p, l |-> l]
StrBare(l)   == [k |-> "bare", l |-> l]
StrUri(u)    == [k |-> "uri", u |-> u]

(* the one local-part token of the models that contains a colon (MC_C03, run over the built-in namespaces) *)
ColonLocal(l) == Len(l) > 0 /\ l[Len(l)] = "u:x"
LocalStr(st, str) ==
  CASE str.k = "pl"   -> IF InTbl(st, str.p) THEN QN(str.p, st.tbl[str.p], str.l)
                         ELSE IF str.p \in DOMAIN st.prenamed
                              THEN QN(st.prenamed[str.p][1], st.prenamed[str.p][2], str.l)
                         ELSE NoQN
    \* a text with a colon is never read as a bare local name: it is cut at the first colon, and what
    \* stands before it ("u", "b/u") is no prefix of any menu nor the beginning of a namespace URI
    [] str.k = "bare" -> IF ColonLocal(str.l) THEN NoQN
                         ELSE IF st.dflt # NONE THEN QN("", st.dflt, str.l) ELSE NoQN
    [] str.k = "uri"  -> Compact(st, str.u)

(* valid_qualified_name(str): this manager first, then (only then) the parent. *)
(* Two levels are all the library ever builds (document <- bundle).            *)
ResolveStrF(M, m, str) ==
  LET r == LocalStr(M[m], str) IN
  IF r.ok THEN r
  ELSE IF M[m].parent # "" THEN LocalStr(M[M[m].parent], str)
  ELSE NoQN

(* merged table of the ancestors of manager m (the library builds at most document <- bundle) *)
AncTbl(M, m) == IF M[m].parent = "" THEN <<>>
                ELSE LET pm == M[m].parent IN
                     IF M[pm].parent = "" THEN M[pm].tbl ELSE M[pm].tbl @@ M[M[pm].parent].tbl

(* How a name prints: prefix:local, or the bare local for the empty prefix *)
Printed(q) == IF q.p = "" THEN StrBare(q.l) ELSE StrPL(q.p, q.l)

=============================================================================
