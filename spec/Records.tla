------------------------------- MODULE Records -------------------------------
(***************************************************************************)
(* prov.model.ProvRecord: attribute validation, coercion and the           *)
(* single-value guard (model.py 227-550), as a functional core.            *)
(*                                                                         *)
(* A record is [k: kind, id: QN or NoQN, attrs: set of [a: QN, v: value]]. *)
(* Stored values (tokens, DESIGN 2.1):                                     *)
(*   [t:"str"|"int"|"float"|"bool"|"dt", v: token]   [t:"uri", u: URI]     *)
(*   [t:"qn", q: QN]   [t:"lit", v: token, dt: QN]   [t:"lang", v, lang]   *)
(*   [t:"isostr", v: dt token]  -- the ISO text of a datetime, as a string *)
(* Input values additionally come as                                       *)
(*   [t:"nlit", T, v]   Literal(lexical form of token v, xsd:T)            *)
(*                      (T = "anyURI": [t:"nlit", T, u: URI])              *)
(*   [t:"plit", v]      Literal(text) without datatype or language         *)
(*   [t:"iso", v]       the ISO string of datetime token v                 *)
(*   [t:"name", n]      a reference given as a name (see ResolveName)      *)
(* Numeric tokens of kinds int/float/bool with the same v are equal in     *)
(* Python (1 == True == 1.0).                                              *)
(***************************************************************************)
EXTENDS Names

Kinds == {"entity", "activity", "agent", "generation", "usage", "communication", "start",
          "end", "invalidation", "derivation", "attribution", "association", "delegation",
          "influence", "specialization", "alternate", "mention", "membership"}
Elements == {"entity", "activity", "agent"}

Formals ==
  [ entity |-> <<>>, agent |-> <<>>,
    activity |-> <<"startTime", "endTime">>,
    generation |-> <<"entity", "activity", "time">>,
    usage |-> <<"activity", "entity", "time">>,
    communication |-> <<"informed", "informant">>,
    start |-> <<"activity", "trigger", "starter", "time">>,
    end |-> <<"activity", "trigger", "ender", "time">>,
    invalidation |-> <<"entity", "activity", "time">>,
    derivation |-> <<"generatedEntity", "usedEntity", "activity", "generation", "usage">>,
    attribution |-> <<"entity", "agent">>,
    association |-> <<"activity", "agent", "plan">>,
    delegation |-> <<"delegate", "responsible", "activity">>,
    influence |-> <<"influencee", "influencer">>,
    specialization |-> <<"specificEntity", "generalEntity">>,
    alternate |-> <<"alternate1", "alternate2">>,
    mention |-> <<"specificEntity", "generalEntity", "bundle">>,
    membership |-> <<"collection", "entity">> ]

TimeAttrs == {"time", "startTime", "endTime"}
RefAttrs  == {"entity", "activity", "trigger", "informed", "informant", "starter", "ender",
              "agent", "plan", "delegate", "responsible", "generatedEntity", "usedEntity",
              "generation", "usage", "specificEntity", "generalEntity", "alternate1",
              "alternate2", "bundle", "influencee", "influencer", "collection"}

IsProvLocal(u, S) == Len(u) = 2 /\ u[1] = "prov#" /\ u[2] \in S
IsRefAttr(q)    == IsProvLocal(Uri(q), RefAttrs)     \* attr in PROV_ATTRIBUTE_QNAMES
IsTimeAttr(q)   == IsProvLocal(Uri(q), TimeAttrs)    \* attr in PROV_ATTRIBUTE_LITERALS
IsFormalAttr(q) == IsRefAttr(q) \/ IsTimeAttr(q)     \* attr in PROV_ATTRIBUTES

NumKinds == {"int", "float", "bool"}
(* Python equality of stored values (what set membership and != see) *)
PyEq(v, w) ==
  IF v.t \in NumKinds /\ w.t \in NumKinds THEN v.v = w.v
  ELSE IF v.t = "qn" /\ w.t = "qn" THEN Uri(v.q) = Uri(w.q)
  ELSE IF v.t = "qn" /\ w.t = "uri" THEN Uri(v.q) = w.u
  ELSE IF v.t = "uri" /\ w.t = "qn" THEN v.u = Uri(w.q)
  \* Literal.__eq__: value, datatype (a QualifiedName: by URI, whatever its prefix) and language
  ELSE IF v.t = "lit" /\ w.t = "lit" THEN v.v = w.v /\ Uri(v.dt) = Uri(w.dt)
  ELSE v = w

(* membership in a Python set additionally needs equal hashes: an Identifier and a *)
(* QualifiedName of one URI are == but hash apart, so a set keeps both             *)
SetEq(v, w) == PyEq(v, w) /\ ~({v.t, w.t} = {"qn", "uri"})

NoRec == [k |-> "", id |-> NoQN, attrs |-> {}]

(* names as callers give them: QualifiedName object, 'p:l', bare local, full URI *)
NameQN(p, ns, l) == [rep |-> "qn", p |-> p, ns |-> ns, l |-> l]
NamePL(p, l)     == [rep |-> "pl", p |-> p, l |-> l]
NameBare(l)      == [rep |-> "bare", l |-> l]
NameUri(u)       == [rep |-> "uri", u |-> u]
NameOfQ(q)       == NameQN(q.p, q.ns, q.l)

(* bundle.valid_qualified_name(name): [q, M'] ; M is the store of all managers *)
ResolveName(M, m, n) ==
  CASE n.rep = "qn"   -> LET r == ResolveQNF(M[m], AncTbl(M, m), n.p, n.ns, n.l)
                         IN [q |-> r.q, M |-> [M EXCEPT ![m] = r.st]]
    [] n.rep = "pl"   -> [q |-> ResolveStrF(M, m, StrPL(n.p, n.l)), M |-> M]
    [] n.rep = "bare" -> [q |-> ResolveStrF(M, m, StrBare(n.l)), M |-> M]
    [] n.rep = "uri"  -> [q |-> ResolveStrF(M, m, StrUri(n.u)), M |-> M]

NativeT == [string |-> "str", double |-> "float", long |-> "int", int |-> "int",
            boolean |-> "bool", dateTime |-> "dt", anyURI |-> "uri"]

(* _auto_literal_conversion(value) -> [v, M'] *)
AutoConv(M, m, iv) ==
  CASE iv.t = "name" -> LET r == ResolveName(M, m, iv.n)       \* QualifiedName / record
                        IN [ok |-> r.q.ok, v |-> [t |-> "qn", q |-> r.q], M |-> r.M]
    [] iv.t = "nlit" -> [ok |-> TRUE, M |-> M,
                        v |-> IF iv.T = "anyURI" THEN [t |-> "uri", u |-> iv.u]
                              ELSE [t |-> NativeT[iv.T], v |-> iv.v]]
    [] iv.t = "plit" -> [ok |-> TRUE, v |-> [t |-> "str", v |-> iv.v], M |-> M]
    \* Literal(ISO text of a datetime, xsd:string) / Literal(ISO text): the string
    [] iv.t = "isolit" -> [ok |-> TRUE, v |-> [t |-> "isostr", v |-> iv.v], M |-> M]
    [] iv.t = "lit"  -> LET r == ResolveQNF(M[m], AncTbl(M, m), iv.dt.p, iv.dt.ns, iv.dt.l)   \* datatype re-homed
                        IN [ok |-> TRUE, v |-> [iv EXCEPT !.dt = r.q], M |-> [M EXCEPT ![m] = r.st]]
    [] OTHER         -> [ok |-> TRUE, v |-> iv, M |-> M]

(* One (name, value) pair of add_attributes.  Result: [rec, M, exc] *)
AddPair(attrs, a, v) ==
  LET ex  == {x \in attrs : Uri(x.a) = Uri(a)}
      key == IF ex = {} THEN a ELSE (CHOOSE x \in ex : TRUE).a
  IN IF \E x \in ex : SetEq(x.v, v) THEN attrs ELSE attrs \cup {[a |-> key, v |-> v]}

ValuesOf(rec, au) == {x.v : x \in {y \in rec.attrs : Uri(y.a) = au}}

ApplyPair(M, m, rec, pr, isColl) ==
  LET ra == ResolveName(M, m, pr[1]) IN
  IF ~ra.q.ok THEN [rec |-> rec, M |-> ra.M, exc |-> "ProvException"]
  ELSE
  LET a  == ra.q
      cv == IF IsRefAttr(a) THEN
               IF pr[2].t = "name"
               THEN LET r == ResolveName(ra.M, m, pr[2].n)
                    IN [ok |-> r.q.ok, v |-> [t |-> "qn", q |-> r.q], M |-> r.M]
               ELSE [ok |-> FALSE, v |-> pr[2], M |-> ra.M]
            ELSE IF IsTimeAttr(a) THEN
               \* a datetime, an ISO string, or a typed literal that converts to one of them
               IF pr[2].t \in {"dt", "iso", "isolit"} \/ (pr[2].t = "nlit" /\ pr[2].T = "dateTime")
               THEN [ok |-> TRUE, v |-> [t |-> "dt", v |-> pr[2].v], M |-> ra.M]
               ELSE [ok |-> FALSE, v |-> pr[2], M |-> ra.M]
            ELSE AutoConv(ra.M, m, pr[2])
  IN IF ~cv.ok THEN [rec |-> rec, M |-> cv.M, exc |-> "ProvException"]
     ELSE LET old == ValuesOf(rec, Uri(a)) IN
          IF ~(isColl /\ Uri(a) = <<"prov#", "entity">>) /\ IsFormalAttr(a) /\ old # {}
          THEN IF \E w \in old : PyEq(cv.v, w)          \* first(values); formals hold one
               THEN [rec |-> rec, M |-> cv.M, exc |-> "none"]
               ELSE [rec |-> rec, M |-> cv.M, exc |-> "ProvException"]
          ELSE [rec |-> [rec EXCEPT !.attrs = AddPair(@, a, cv.v)], M |-> cv.M, exc |-> "none"]

(* the prov:collection key given as an object (QualifiedName) switches the guard off *)
(* for prov:entity (several members of one membership)                              *)
IsCollectionCall(pairs) ==
  \E i \in 1..Len(pairs) : pairs[i][1].rep = "qn" /\
       pairs[i][1].ns \o pairs[i][1].l = <<"prov#", "collection">>

(* add_attributes(pairs): in order; stops at the first exception, earlier pairs stay *)
RECURSIVE AddAttrsFrom(_, _, _, _, _, _)
AddAttrsFrom(M, m, rec, pairs, i, isColl) ==
  IF i > Len(pairs) THEN [rec |-> rec, M |-> M, exc |-> "none"]
  ELSE LET r == ApplyPair(M, m, rec, pairs[i], isColl) IN
       IF r.exc # "none" THEN r ELSE AddAttrsFrom(r.M, m, r.rec, pairs, i + 1, isColl)

AddAttrsF(M, m, rec, pairs) == AddAttrsFrom(M, m, rec, pairs, 1, IsCollectionCall(pairs))

(* what the record shows: formal_attributes as (name, value or NONE) in table order *)
FormalValue(rec, name) ==
  LET vs == ValuesOf(rec, <<"prov#", name>>) IN IF vs = {} THEN NONE ELSE <<CHOOSE v \in vs : TRUE>>

=============================================================================
