------------------------------- MODULE Values -------------------------------
(***************************************************************************)
(* Text and value abstraction shared by every module of the prov spec.    *)
(*                                                                         *)
(* URI text is a non-empty sequence of *segments* (strings).  A namespace *)
(* URI and a local part are both such sequences and a name's URI is their *)
(* concatenation, so <<"a">> \o <<"b","x">> = <<"a","b">> \o <<"x">>: one *)
(* URI reachable through two namespaces, and <<"a">> is a proper prefix   *)
(* of <<"a","b">> ("URIs that are prefixes of each other").  Python's     *)
(* str.startswith / str.replace become IsPrefix / SubSeq.                 *)
(*                                                                         *)
(* Optional things are encoded type-uniformly: "absent" is the empty      *)
(* sequence NONE, never a sentinel string (TLC raises an error when a     *)
(* tuple is compared with a string).                                      *)
(***************************************************************************)
EXTENDS Naturals, Sequences, FiniteSets, TLC, SequencesExt, Functions

NONE == <<>>

ProvNS == <<"prov#">>
XsdNS  == <<"xsd#">>
XsiNS  == <<"xsi">>

(* A qualified name as the library holds it: the prefix it prints with,    *)
(* its namespace URI and its local part.  ok=FALSE is "resolution failed". *)
QN(p, ns, l) == [ok |-> TRUE, p |-> p, ns |-> ns, l |-> l]
NoQN == [ok |-> FALSE, p |-> "", ns |-> NONE, l |-> NONE]
Uri(q) == q.ns \o q.l

ProvQ(l) == QN("prov", ProvNS, <<l>>)
XsdQ(l)  == QN("xsd", XsdNS, <<l>>)

SeqToSet(s) == {s[i] : i \in 1..Len(s)}

(* Minimum of a non-empty set of naturals *)
MinOf(S) == CHOOSE k \in S : \A j \in S : k <= j

=============================================================================
